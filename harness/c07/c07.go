// Package c07 decides C07: the Merkle Patricia trie is an authenticated map with a
// canonical root. The real trie.Trie / trie.StateTrie / trie.StackTrie /
// trie.Database(hashdb) / NodeIterator / Prove / VerifyProof / VerifyRangeProof /
// types.DeriveSha are driven by generated histories over colliding key universes and
// compared after every operation with a Go map and with two independent roots: a
// transcription of the yellow-paper definition (spec.go) and a fresh go-ethereum
// v1.9.15 trie (never committed).
package c07

import (
	"bytes"
	"encoding/hex"
	"fmt"
	"hash/fnv"
	"math/rand"
	"sort"
	"time"

	gcommon "github.com/ethereum/go-ethereum/common"
	grawdb "github.com/ethereum/go-ethereum/core/rawdb"
	gtrie "github.com/ethereum/go-ethereum/trie"

	"github.com/kardiachain/go-kardia/kai/kaidb/memorydb"
	"github.com/kardiachain/go-kardia/lib/common"
	"github.com/kardiachain/go-kardia/trie"
	"github.com/kardiachain/go-kardia/trie/trienode"
	"github.com/kardiachain/go-kardia/types"

	"verifharness/core"
)

func init() { core.Register("C07", Main) }

// ---- subject: raw trie or state (secure) trie behind one set of calls ----

type subj struct {
	raw *trie.Trie
	sec *trie.StateTrie
}

func (s subj) update(k, v []byte) error {
	if s.sec != nil {
		s.sec.MustUpdate(k, v)
		return nil
	}
	return s.raw.Update(k, v)
}

func (s subj) del(k []byte) error {
	if s.sec != nil {
		s.sec.MustDelete(k)
		return nil
	}
	return s.raw.Delete(k)
}

func (s subj) get(k []byte) ([]byte, error) {
	if s.sec != nil {
		return s.sec.MustGet(k), nil
	}
	return s.raw.Get(k)
}

func (s subj) hash() common.Hash {
	if s.sec != nil {
		return s.sec.Hash()
	}
	return s.raw.Hash()
}

func (s subj) commit() (common.Hash, *trienode.NodeSet) {
	if s.sec != nil {
		return s.sec.Commit(false)
	}
	return s.raw.Commit(false)
}

func (s subj) copy() subj {
	if s.sec != nil {
		return subj{sec: s.sec.Copy()}
	}
	return subj{raw: s.raw.Copy()}
}

func (s subj) iter(start []byte) trie.NodeIterator {
	if s.sec != nil {
		return s.sec.NodeIterator(start)
	}
	return s.raw.NodeIterator(start)
}

func (s subj) prove(contentKey []byte, w *proofRec) error {
	if s.sec != nil {
		return s.sec.Prove(contentKey, 0, w)
	}
	return s.raw.Prove(contentKey, 0, w)
}

// ---- history machinery ----

type opRec struct {
	Op string `json:"op"`
	B  int    `json:"branch"`
	K  string `json:"k,omitempty"`
	V  string `json:"v,omitempty"`
}

type branch struct {
	s         subj
	model     map[string][]byte // content key -> value (never empty)
	base      common.Hash       // committed root the in-memory trie was opened from
	sinceHash int
	last      *specStats
}

type committed struct {
	root    common.Hash
	model   map[string][]byte
	refs    int
	flushed bool
}

type cfg struct {
	secure      bool
	rootMode    int // 0: roots only at explicit hash ops and at the end; 1: Copy().Hash() after every op; 2: Hash() after every op; 3: mixed
	cleanCache  bool
	exhaustive  bool // exhaustive proof mutations (corpus)
	tamperKeys  int
	perms       int
	rangeRounds int
}

type stop struct{}

type hist struct {
	c     *core.Case
	run   *core.Run
	r     *rand.Rand
	u     universe
	cfg   cfg
	disk  *memorydb.Database
	db    *trie.Database
	gdb   *gtrie.Database
	br    []*branch
	roots []*committed
	trace []opRec
	cnt   map[string]int
	last  string
	fp    uint64
	nt    bool // a present key was overwritten or deleted
	ntB   bool // a checked content had a branch node
}

func clone(m map[string][]byte) map[string][]byte {
	o := make(map[string][]byte, len(m))
	for k, v := range m {
		o[k] = v
	}
	return o
}

func cp(b []byte) []byte { return append([]byte{}, b...) }

func (h *hist) newDB() *trie.Database {
	if h.cfg.cleanCache {
		return trie.NewDatabaseWithConfig(h.disk, &trie.Config{Cache: 1, Preimages: h.cfg.secure})
	}
	if h.cfg.secure {
		return trie.NewDatabaseWithConfig(h.disk, &trie.Config{Preimages: true})
	}
	return trie.NewDatabase(h.disk)
}

func newHist(c *core.Case, u universe, cf cfg) *hist {
	h := &hist{c: c, run: c.Run, r: c.R, u: u, cfg: cf, disk: memorydb.New(), cnt: map[string]int{}}
	h.db = h.newDB()
	h.gdb = gtrie.NewDatabase(grawdb.NewMemoryDatabase())
	s, err := h.open(types.EmptyRootHash)
	if err != nil {
		panic("cannot open empty trie: " + err.Error())
	}
	h.br = []*branch{{s: s, model: map[string][]byte{}, base: types.EmptyRootHash}}
	return h
}

func (h *hist) open(root common.Hash) (subj, error) {
	if h.cfg.secure {
		t, err := trie.NewStateTrie(trie.StateTrieID(root), h.db)
		return subj{sec: t}, err
	}
	t, err := trie.New(trie.TrieID(root), h.db)
	return subj{raw: t}, err
}

// ck maps a key as given to the subject to the key of the authenticated content.
func (h *hist) ck(raw []byte) string {
	if h.cfg.secure {
		return string(keccak(raw))
	}
	return string(raw)
}

func (h *hist) witness() interface{} {
	keys := make([]string, len(h.u.Keys))
	for i, k := range h.u.Keys {
		keys[i] = hex.EncodeToString(k)
	}
	tr := h.trace
	note := ""
	if len(tr) > 600 {
		note = fmt.Sprintf("%d earlier operations omitted (replay regenerates them)", len(tr)-600)
		tr = tr[len(tr)-600:]
	}
	return map[string]interface{}{"universe": h.u.Name, "keys": keys, "secure": h.cfg.secure, "root_mode": h.cfg.rootMode,
		"clean_cache": h.cfg.cleanCache, "trace": tr, "note": note}
}

func (h *hist) fail(key, what string) {
	h.c.Violation(key, what+" [universe "+h.u.Name+"]", h.witness())
	panic(stop{})
}

func (h *hist) rec(op string, bi int, k, v []byte) {
	o := opRec{Op: op, B: bi}
	if k != nil {
		o.K = hex.EncodeToString(k)
		if len(k) == 0 {
			o.K = "(empty)"
		}
	}
	if v != nil {
		o.V = hex.EncodeToString(v)
	}
	h.trace = append(h.trace, o)
	h.last = op
	h.cnt["op:"+op]++
	f := fnv.New64a()
	fmt.Fprintf(f, "%d|%s|%d|%x|%d", h.fp, op, bi, k, len(v))
	h.fp = f.Sum64()
	h.run.Eval(1)
}

// refs computes the two independent roots of a content.
func (h *hist) refs(m map[string][]byte) ([]byte, *specStats, []byte) {
	spec, st := specRoot(m)
	g, err := gtrie.New(gcommon.Hash{}, h.gdb)
	if err != nil {
		panic(err)
	}
	for _, k := range sortedKeys(m) {
		g.Update([]byte(k), m[k])
	}
	return spec, st, g.Hash().Bytes()
}

func shapeFP(st *specStats) string {
	f := fnv.New64a()
	f.Write(st.shape)
	return fmt.Sprintf("%x", f.Sum64())
}

// checkRoot compares a root produced by go-kardia with both references.
func (h *hist) checkRoot(b *branch, got common.Hash, where string) *specStats {
	spec, st, geth := h.refs(b.model)
	h.cnt["root_checks"]++
	h.cnt["root_checks:"+where]++
	if !bytes.Equal(spec, geth) {
		// the two references disagree: go-kardia is judged against the specification,
		// the disagreement itself is reported in the evidence.
		h.cnt["reference_disagreements"]++
		h.run.Sample(map[string]interface{}{"reference_disagreement": h.witness(), "spec": hex.EncodeToString(spec), "geth": hex.EncodeToString(geth)})
	}
	if !bytes.Equal(got[:], spec) {
		agree := "the fresh go-ethereum v1.9.15 trie agrees with the specification"
		if !bytes.Equal(spec, geth) {
			agree = fmt.Sprintf("fresh go-ethereum v1.9.15 trie gives %x", geth)
		}
		h.fail("root-differs:"+where+":after-"+h.last, fmt.Sprintf("%s root %x, yellow-paper root of the same %d-entry content %x (%s)", where, got, len(b.model), spec, agree))
	}
	h.run.Distinct("trie_shapes", shapeFP(st))
	if st.Branches > 0 {
		h.ntB = true
	}
	return st
}

func (h *hist) checkGet(b *branch, raw []byte) {
	got, err := b.s.get(raw)
	want := b.model[h.ck(raw)]
	h.cnt["gets_checked"]++
	if want == nil {
		h.cnt["gets_absent"]++
	}
	if err != nil {
		h.fail("get-error:after-"+h.last, fmt.Sprintf("Get(%x) failed: %v", raw, err))
	}
	if !bytes.Equal(got, want) {
		h.fail("get-differs-from-model:after-"+h.last, fmt.Sprintf("Get(%x) = %x, last value written %x", raw, got, want))
	}
}

func (h *hist) afterOp(b *branch, touched []byte) {
	if touched != nil {
		h.checkGet(b, touched)
	}
	for i := 0; i < 2 && len(h.u.Keys) > 0; i++ {
		h.checkGet(b, h.u.Keys[h.r.Intn(len(h.u.Keys))])
	}
	mode := h.cfg.rootMode
	if mode == 3 {
		mode = []int{0, 0, 1, 2}[h.r.Intn(4)]
	}
	prev := b.last
	b.last = nil
	switch mode {
	case 1:
		b.last = h.checkRoot(b, b.s.copy().hash(), "copy-hash")
	case 2:
		if b.sinceHash >= 100 {
			h.cnt["hash_after_100plus_updates"]++
		}
		b.last = h.checkRoot(b, b.s.hash(), "hash")
		b.sinceHash = 0
	}
	if prev != nil && b.last != nil && (h.last == "delete" || h.last == "update-empty") && b.last.Branches < prev.Branches {
		h.cnt["delete_collapsed_branch"]++
	}
}

func (h *hist) idx(b *branch) int {
	for i, x := range h.br {
		if x == b {
			return i
		}
	}
	return -1
}

func (h *hist) opUpdate(b *branch, raw, v []byte) {
	bi := h.idx(b)
	ck := h.ck(raw)
	_, had := b.model[ck]
	name := "update"
	switch {
	case len(v) == 0:
		name = "update-empty"
	case had && bytes.Equal(b.model[ck], v):
		name = "overwrite-same"
	case had:
		name = "overwrite"
	}
	if had {
		h.nt = true
	}
	h.rec(name, bi, raw, v)
	if err := b.s.update(raw, cp(v)); err != nil {
		h.fail("update-error", fmt.Sprintf("Update(%x) failed: %v", raw, err))
	}
	if len(v) == 0 {
		delete(b.model, ck)
	} else {
		b.model[ck] = v
	}
	b.sinceHash++
	h.afterOp(b, raw)
}

func (h *hist) opDelete(b *branch, raw []byte) {
	bi := h.idx(b)
	ck := h.ck(raw)
	if _, had := b.model[ck]; had {
		h.rec("delete", bi, raw, nil)
		h.nt = true
	} else {
		h.rec("delete-absent", bi, raw, nil)
	}
	if err := b.s.del(raw); err != nil {
		h.fail("delete-error", fmt.Sprintf("Delete(%x) failed: %v", raw, err))
	}
	delete(b.model, ck)
	b.sinceHash++
	h.afterOp(b, raw)
}

func (h *hist) opGet(b *branch, raw []byte) {
	h.rec("get", h.idx(b), raw, nil)
	h.checkGet(b, raw)
}

func (h *hist) opHash(b *branch) {
	h.rec("hash", h.idx(b), nil, nil)
	if b.sinceHash >= 100 {
		h.cnt["hash_after_100plus_updates"]++
	}
	b.last = h.checkRoot(b, b.s.hash(), "hash")
	b.sinceHash = 0
}

// opCommit commits the branch, hands the node set to the trie database as kai/state does,
// references the root as the block chain does, optionally flushes it to disk and restarts the
// trie database, then reopens the branch by root hash.
func (h *hist) opCommit(b *branch, flush, restart bool) {
	bi := h.idx(b)
	name := "commit+reopen"
	if restart {
		name = "commit+flush+restart"
		flush = true
	} else if flush {
		name = "commit+flush+reopen"
	}
	h.rec(name, bi, nil, nil)
	root, nodes := b.s.commit()
	if nodes != nil {
		if err := h.db.Update(root, b.base, trienode.NewWithNodeSet(nodes)); err != nil {
			h.fail("db-update-error", "Database.Update failed: "+err.Error())
		}
		up, _ := nodes.Size()
		h.cnt["nodes_committed"] += up
	}
	h.checkRoot(b, root, "commit")
	h.db.Reference(root, common.Hash{})
	cm := &committed{root: root, model: clone(b.model), refs: 1}
	h.roots = append(h.roots, cm)
	if flush {
		if err := h.db.Commit(root, false); err != nil {
			h.fail("db-commit-error", "Database.Commit failed: "+err.Error())
		}
		cm.flushed = true
		h.cnt["disk_flushes"]++
	}
	if restart {
		h.db = h.newDB()
		h.br = []*branch{b}
		var kept []*committed
		for _, e := range h.roots {
			if e.flushed {
				e.refs = 0
				kept = append(kept, e)
			}
		}
		h.roots = kept
		h.cnt["db_restarts"]++
	}
	s, err := h.open(root)
	if err != nil {
		h.fail("reopen-error:after-"+h.last, fmt.Sprintf("cannot reopen committed root %x: %v", root, err))
	}
	b.s, b.base, b.sinceHash, b.last = s, root, 0, nil
	if got := s.hash(); got != root {
		h.fail("reopen-hash-differs", fmt.Sprintf("trie reopened at %x reports root %x", root, got))
	}
	h.cnt["reopens"]++
	for i := 0; i < 3 && len(h.u.Keys) > 0; i++ {
		h.checkGet(b, h.u.Keys[h.r.Intn(len(h.u.Keys))])
	}
	if len(h.roots) > 5 {
		h.opDeref()
	}
}

func (h *hist) isBase(root common.Hash) bool {
	for _, b := range h.br {
		if b.base == root {
			return true
		}
	}
	return false
}

// opDeref releases one referenced root (as the block chain's GC does) and then requires
// every root still referenced, or flushed to disk, to be completely readable.
func (h *hist) opDeref() {
	var cand []*committed
	for _, e := range h.roots {
		if e.refs > 0 && !h.isBase(e.root) {
			cand = append(cand, e)
		}
	}
	if len(cand) == 0 {
		return
	}
	e := cand[h.r.Intn(len(cand))]
	if len(h.roots) > 5 {
		e = cand[0]
	}
	h.rec("dereference", 0, e.root[:4], nil)
	h.db.Dereference(e.root)
	e.refs--
	h.cnt["dereferences"]++
	var kept []*committed
	for _, x := range h.roots {
		if x.refs > 0 || x.flushed {
			kept = append(kept, x)
		}
	}
	h.roots = kept
	h.checkKept("dereference")
}

func (h *hist) opCap() {
	h.rec("cap-flush-all", 0, nil, nil)
	if err := h.db.Cap(0); err != nil {
		h.fail("db-cap-error", "Database.Cap failed: "+err.Error())
	}
	for _, e := range h.roots {
		if e.refs > 0 {
			e.flushed = true
		}
	}
	h.checkKept("cap")
}

func (h *hist) checkKept(after string) {
	for _, e := range h.roots {
		t, err := trie.New(trie.TrieID(e.root), h.db)
		if err != nil {
			h.fail("kept-root-unreadable:after-"+after, fmt.Sprintf("root %x (still referenced or flushed) cannot be opened: %v", e.root, err))
		}
		if d := h.compareIter(t.NodeIterator(nil), e.model, nil); d != "" {
			h.fail("kept-root-unreadable:after-"+after, fmt.Sprintf("root %x (still referenced or flushed): %s", e.root, d))
		}
		h.cnt["kept_roots_read"]++
	}
}

// ---- iterator ----

// seekIncludes: does the walk started at `start` include key k (see pathOrder).
func seekIncludes(k, start string) bool {
	n := len(k)
	if len(start) < n {
		n = len(start)
	}
	return k[:n] >= start[:n]
}

func (h *hist) compareIter(nit trie.NodeIterator, model map[string][]byte, start []byte) string {
	var want []string
	for _, k := range pathOrder(sortedKeys(model)) {
		if start == nil || seekIncludes(k, string(start)) {
			want = append(want, k)
		}
	}
	it := trie.NewIterator(nit)
	i := 0
	for it.Next() {
		if i >= len(want) {
			return fmt.Sprintf("iterator yields extra key %x", it.Key)
		}
		if string(it.Key) != want[i] {
			return fmt.Sprintf("iterator position %d: key %x, sorted model has %x", i, it.Key, want[i])
		}
		if !bytes.Equal(it.Value, model[want[i]]) {
			return fmt.Sprintf("iterator value of %x is %x, model %x", it.Key, it.Value, model[want[i]])
		}
		i++
	}
	if it.Err != nil {
		return "iterator error: " + it.Err.Error()
	}
	if i != len(want) {
		return fmt.Sprintf("iterator stopped after %d of %d entries (next expected %x)", i, len(want), want[i])
	}
	return ""
}

func (h *hist) checkIter(b *branch, s subj, where string) {
	if d := h.compareIter(s.iter(nil), b.model, nil); d != "" {
		h.fail("iterator-differs:"+where, d)
	}
	h.cnt["iterations"]++
	if !prefixFree(b.model) {
		h.cnt["iterations_prefix_related_keys"]++
	}
	// seek
	for i := 0; i < 3; i++ {
		var start []byte
		if len(h.u.Keys) > 0 && h.r.Intn(3) > 0 {
			start = cp([]byte(h.ck(h.u.Keys[h.r.Intn(len(h.u.Keys))])))
			switch h.r.Intn(4) {
			case 0:
				if len(start) > 0 {
					start[len(start)-1]++
				}
			case 1:
				if len(start) > 0 {
					start = start[:len(start)-1]
				}
			}
		} else {
			start = make([]byte, h.r.Intn(4))
			h.r.Read(start)
		}
		if d := h.compareIter(s.iter(start), b.model, start); d != "" {
			h.fail("iterator-seek-differs:"+where, fmt.Sprintf("start %x: %s", start, d))
		}
		h.cnt["iterations_seek"]++
	}
}

// checkNodeWalk: on a committed trie every hashed node the iterator reports must be the
// preimage of its hash, and every leaf's LeafProof must verify.
func (h *hist) checkNodeWalk(b *branch, s subj, root common.Hash) {
	it := s.iter(nil)
	for it.Next(true) {
		if hs := it.Hash(); hs != (common.Hash{}) {
			blob := it.NodeBlob()
			if blob == nil || !bytes.Equal(keccak(blob), hs[:]) {
				h.fail("node-iterator-blob-hash", fmt.Sprintf("node at path %x: blob %x is not the preimage of %x (err %v)", it.Path(), blob, hs, it.Error()))
			}
			h.cnt["node_blobs_hashed"]++
			var nb []byte
			var err error
			if s.sec != nil {
				nb, _, err = s.sec.GetNode(hp(it.Path(), false))
			} else {
				nb, _, err = s.raw.GetNode(hp(it.Path(), false))
			}
			if err != nil || !bytes.Equal(nb, blob) {
				h.fail("get-node-differs", fmt.Sprintf("GetNode(path %x) = %x (err %v), the node iterator reports %x", it.Path(), nb, err, blob))
			}
		}
		if it.Leaf() {
			k := it.LeafKey()
			val, err, _ := h.verify(root, k, it.LeafProof())
			if err != nil || !bytes.Equal(val, b.model[string(k)]) {
				h.fail("leaf-proof-fails", fmt.Sprintf("LeafProof of %x verifies to %x, err %v; stored %x", k, val, err, b.model[string(k)]))
			}
			h.cnt["leaf_proofs"]++
		}
	}
	if err := it.Error(); err != nil {
		h.fail("node-iterator-error", "node iterator: "+err.Error())
	}
}

// ---- metamorphic relations inside go-kardia ----

func (h *hist) freshDB() *trie.Database { return trie.NewDatabase(memorydb.New()) }

// buildRoot inserts the content in the given order with commit+reopen before the
// positions listed in commitAt, and extra keys that are deleted again.
func (h *hist) buildRoot(m map[string][]byte, order []string, commitAt map[int]bool, extras map[string][]byte) (common.Hash, error) {
	db := h.freshDB()
	t := trie.NewEmpty(db)
	parent := types.EmptyRootHash
	type stepT struct {
		k   string
		v   []byte
		del bool
	}
	var steps []stepT
	for _, k := range order {
		steps = append(steps, stepT{k, m[k], false})
	}
	if len(extras) > 0 {
		// insert extras at random places, delete each somewhere after its insertion
		for _, k := range sortedKeys(extras) {
			p := h.r.Intn(len(steps) + 1)
			steps = append(steps[:p], append([]stepT{{k, extras[k], false}}, steps[p:]...)...)
			q := p + 1 + h.r.Intn(len(steps)-p)
			steps = append(steps[:q], append([]stepT{{k, nil, true}}, steps[q:]...)...)
		}
	}
	for i, s := range steps {
		if commitAt[i] {
			root, nodes := t.Commit(false)
			if nodes != nil {
				if err := db.Update(root, parent, trienode.NewWithNodeSet(nodes)); err != nil {
					return common.Hash{}, err
				}
			}
			parent = root
			nt, err := trie.New(trie.TrieID(root), db)
			if err != nil {
				return common.Hash{}, err
			}
			t = nt
			h.cnt["placement_commits"]++
		}
		var err error
		if s.del {
			if h.r.Intn(2) == 0 {
				err = t.Delete([]byte(s.k))
			} else {
				err = t.Update([]byte(s.k), nil)
			}
		} else {
			err = t.Update([]byte(s.k), cp(s.v))
		}
		if err != nil {
			return common.Hash{}, err
		}
		if h.r.Intn(6) == 0 {
			t.Hash()
		}
	}
	return t.Hash(), nil
}

func (h *hist) checkMetamorphic(b *branch, root common.Hash) {
	keys := sortedKeys(b.model)
	n := len(keys)
	if n == 0 {
		return
	}
	for p := 0; p < h.cfg.perms; p++ {
		order := append([]string{}, keys...)
		switch p {
		case 0: // sorted
		case 1:
			for i, j := 0, n-1; i < j; i, j = i+1, j-1 {
				order[i], order[j] = order[j], order[i]
			}
		default:
			h.r.Shuffle(n, func(i, j int) { order[i], order[j] = order[j], order[i] })
		}
		commitAt := map[int]bool{}
		var extras map[string][]byte
		kind := "order"
		switch p % 3 {
		case 1:
			kind = "commit-placement"
			for i := 0; i < 1+h.r.Intn(3); i++ {
				commitAt[1+h.r.Intn(n+1)] = true
			}
		case 2:
			kind = "insert-delete-extras"
			extras = map[string][]byte{}
			for i := 0; i < 1+h.r.Intn(4) && len(h.u.Keys) > 0; i++ {
				k := h.ck(h.u.Keys[h.r.Intn(len(h.u.Keys))])
				if _, in := b.model[k]; !in {
					extras[k] = genVal(h.r, h.u.ValProfile)
				}
			}
			if h.r.Intn(2) == 0 {
				commitAt[1+h.r.Intn(n+1)] = true
			}
		}
		got, err := h.buildRoot(b.model, order, commitAt, extras)
		if err != nil {
			h.fail("metamorphic-build-error:"+kind, "rebuilding the content failed: "+err.Error())
		}
		h.cnt["metamorphic:"+kind]++
		if got != root {
			var os []string
			for _, k := range order {
				os = append(os, hex.EncodeToString([]byte(k)))
			}
			var cs []int
			for i := range commitAt {
				cs = append(cs, i)
			}
			sort.Ints(cs)
			var es []string
			for _, k := range sortedKeys(extras) {
				es = append(es, hex.EncodeToString([]byte(k)))
			}
			h.fail("root-depends-on-history:"+kind, fmt.Sprintf("same content rebuilt (%s; order %v, commits before steps %v, extras %v) has root %x, the history's trie %x", kind, os, cs, es, got, root))
		}
	}
}

// ---- stack trie ----

func (h *hist) checkStack(b *branch, root common.Hash) {
	if !prefixFree(b.model) {
		// StackTrie is specified for key sets in which no key is a prefix of another
		// (fixed-size keys, RLP-encoded indices); it panics by design otherwise.
		h.cnt["stack_skipped_prefix_related_keys"]++
		return
	}
	keys := sortedKeys(b.model)
	st := trie.NewStackTrie(nil)
	for _, k := range keys {
		st.Update([]byte(k), cp(b.model[k]))
	}
	if got := st.Hash(); got != root {
		h.fail("stack-root-differs", fmt.Sprintf("StackTrie over the sorted %d-entry content gives %x, the trie %x", len(keys), got, root))
	}
	h.cnt["stack_roots"]++
	// serialised in mid-stream and continued from the binary form (as a resumed sync does)
	if len(keys) >= 2 {
		cut := 1 + h.r.Intn(len(keys)-1)
		sa := trie.NewStackTrie(nil)
		for _, k := range keys[:cut] {
			sa.Update([]byte(k), cp(b.model[k]))
		}
		blob, err := sa.MarshalBinary()
		if err != nil {
			h.fail("stack-marshal-error", "StackTrie.MarshalBinary: "+err.Error())
		}
		sb, err := trie.NewFromBinary(blob, nil)
		if err != nil {
			h.fail("stack-marshal-error", "trie.NewFromBinary: "+err.Error())
		}
		for _, k := range keys[cut:] {
			sb.Update([]byte(k), cp(b.model[k]))
		}
		if got := sb.Hash(); got != root {
			h.fail("stack-root-differs:after-marshal", fmt.Sprintf("StackTrie serialised after %d of %d sorted entries and continued gives %x, the trie %x", cut, len(keys), got, root))
		}
		h.cnt["stack_marshal_roundtrips"]++
	}
	// committing stack trie: the nodes it writes must form the complete trie
	disk := memorydb.New()
	st2 := trie.NewStackTrie(func(owner common.Hash, path []byte, hash common.Hash, blob []byte) {
		if !bytes.Equal(keccak(blob), hash[:]) {
			h.fail("stack-write-hash", fmt.Sprintf("StackTrie wrote a node at path %x under %x that hashes to %x", path, hash, keccak(blob)))
		}
		disk.Put(hash[:], cp(blob))
	})
	for _, k := range keys {
		st2.Update([]byte(k), cp(b.model[k]))
	}
	r2, err := st2.Commit()
	if err != nil || r2 != root {
		h.fail("stack-commit-root-differs", fmt.Sprintf("StackTrie.Commit gives %x (err %v), the trie %x", r2, err, root))
	}
	if len(keys) > 0 {
		t, err := trie.New(trie.TrieID(r2), trie.NewDatabase(disk))
		if err != nil {
			h.fail("stack-commit-unreadable", "trie written by StackTrie.Commit cannot be opened: "+err.Error())
		}
		if d := h.compareIter(t.NodeIterator(nil), b.model, nil); d != "" {
			h.fail("stack-commit-unreadable", "trie written by StackTrie.Commit: "+d)
		}
	}
	h.cnt["stack_commits"]++
}

// ---- final check of a branch ----

func (h *hist) fullGets(b *branch) {
	for _, k := range h.u.Keys {
		h.checkGet(b, k)
	}
}

func (h *hist) finalCheck(b *branch, restart bool) {
	h.rec("final-check", h.idx(b), nil, nil)
	h.fullGets(b)
	if b.sinceHash >= 100 {
		h.cnt["hash_after_100plus_updates"]++
	}
	root := b.s.hash()
	b.sinceHash = 0
	st := h.checkRoot(b, root, "final-hash")
	h.cnt["final_entries"] += len(b.model)
	h.cnt["spec_embedded_nodes"] += st.Embedded
	h.cnt["spec_hashed_nodes"] += st.Hashed
	h.cnt["spec_nodes_len31"] += st.Len31
	h.cnt["spec_nodes_len32"] += st.Len32
	h.cnt["spec_nodes_len33"] += st.Len33
	h.cnt["spec_branch_values"] += st.BranchValues
	h.cnt["spec_extensions"] += st.Exts
	h.cnt["spec_branches"] += st.Branches
	h.cnt["spec_last_nibble_forks"] += st.LastNibbleFork
	h.run.Max("max_depth", int64(st.Depth))
	h.run.Max("max_entries", int64(len(b.model)))
	h.checkIter(b, b.s, "live")
	h.checkMetamorphic(b, root)
	h.checkStack(b, root)
	h.checkProofs(b, b.s, root, "live")
	h.checkRanges(b, b.s, root)
	// commit, flush to disk, (for the last branch) restart the trie database, reopen by root: same content
	h.opCommit(b, true, restart)
	h.fullGets(b)
	h.checkIter(b, b.s, "reopened")
	h.checkProofs(b, b.s, root, "reopened")
	h.checkRanges(b, b.s, root)
	// a fresh handle for the node walk (the previous calls resolved parts of the trie)
	s, err := h.open(root)
	if err != nil {
		h.fail("reopen-error:after-final", err.Error())
	}
	h.checkNodeWalk(b, s, root)
}

func (h *hist) flush() {
	for k, v := range h.cnt {
		h.run.Count(k, v)
	}
}

// guard runs fn, turning go-kardia panics into violations with the history as witness.
func (h *hist) guard(fn func()) {
	defer h.flush()
	h.c.Guard("history over "+h.u.Name, h.witness, func() {
		defer func() {
			if e := recover(); e != nil {
				if _, ok := e.(stop); !ok {
					panic(e)
				}
			}
		}()
		fn()
	})
}

// ---- random histories ----

func (h *hist) pickKey(b *branch, present bool) []byte {
	if len(h.u.Keys) == 0 {
		return []byte{1}
	}
	for try := 0; try < 6; try++ {
		k := h.u.Keys[h.r.Intn(len(h.u.Keys))]
		_, in := b.model[h.ck(k)]
		if in == present {
			return k
		}
	}
	return h.u.Keys[h.r.Intn(len(h.u.Keys))]
}

func (h *hist) randomOps(n int) {
	delHeavy := h.r.Intn(4) == 0
	for i := 0; i < n; i++ {
		b := h.br[h.r.Intn(len(h.br))]
		x := h.r.Intn(100)
		if delHeavy && len(b.model) > 2 && x < 40 {
			x = 45
		}
		switch {
		case x < 30:
			h.opUpdate(b, h.pickKey(b, false), genVal(h.r, h.u.ValProfile))
		case x < 42:
			k := h.pickKey(b, true)
			v := genVal(h.r, h.u.ValProfile)
			if h.r.Intn(8) == 0 {
				if old, ok := b.model[h.ck(k)]; ok {
					v = old
				}
			}
			h.opUpdate(b, k, v)
		case x < 56:
			h.opDelete(b, h.pickKey(b, true))
		case x < 60:
			h.opUpdate(b, h.pickKey(b, true), []byte{})
		case x < 66:
			h.opDelete(b, h.pickKey(b, false))
		case x < 74:
			h.opGet(b, h.pickKey(b, h.r.Intn(2) == 0))
		case x < 82:
			h.opHash(b)
		case x < 90:
			y := h.r.Intn(10)
			h.opCommit(b, y < 3, y == 0)
		case x < 94:
			if len(h.br) < 3 {
				h.rec("copy", h.idx(b), nil, nil)
				h.br = append(h.br, &branch{s: b.s.copy(), model: clone(b.model), base: b.base, sinceHash: b.sinceHash})
				h.cnt["copies"]++
			} else {
				d := h.r.Intn(len(h.br))
				h.rec("drop-branch", d, nil, nil)
				h.br = append(h.br[:d], h.br[d+1:]...)
			}
		case x < 97:
			h.opDeref()
		case x == 97:
			h.opCap()
		case x == 98 && n >= 20:
			// a burst of >= 100 modifications without any hashing in between, then Hash():
			// the hasher switches to its parallel mode at 100 unhashed updates
			saved := h.cfg.rootMode
			h.cfg.rootMode = 0
			for j, m := 0, 100+h.r.Intn(60); j < m; j++ {
				switch y := h.r.Intn(10); {
				case y < 6:
					h.opUpdate(b, h.pickKey(b, h.r.Intn(3) == 0), genVal(h.r, h.u.ValProfile))
				case y < 9:
					h.opDelete(b, h.pickKey(b, true))
				default:
					h.opGet(b, h.pickKey(b, true))
				}
			}
			h.cfg.rootMode = saved
			h.opHash(b)
		default:
			h.opGet(b, h.pickKey(b, true))
		}
	}
}

func historyCase(secure bool) func(c *core.Case) {
	return func(c *core.Case) {
		r := c.R
		u := genUniverse(r, -1)
		if secure {
			// arbitrary keys; the state trie stores them under their Keccak-256 hash
			u.PrefixFree, u.FixedLen = true, 32
			u.Name = "secure(" + u.Name + ")"
		}
		cf := cfg{secure: secure, rootMode: []int{0, 1, 2, 3, 3, 3}[r.Intn(6)], cleanCache: r.Intn(8) == 0, tamperKeys: 3, perms: 4}
		h := newHist(c, u, cf)
		n := 1 + r.Intn(60)
		switch r.Intn(8) {
		case 0:
			n = 1 + r.Intn(8)
		case 1:
			n = 100 + r.Intn(300)
		}
		if n > 120 && cf.rootMode != 0 && r.Intn(2) == 0 {
			h.cfg.rootMode = 0 // long stretches without hashing: the parallel hasher (>= 100 unhashed updates)
		}
		h.guard(func() {
			h.randomOps(n)
			brs := append([]*branch{}, h.br...)
			for i, b := range brs {
				h.finalCheck(b, i == len(brs)-1 && r.Intn(2) == 0)
			}
		})
		if h.nt && h.ntB {
			c.Run.Nontrivial(fmt.Sprintf("%s|%x", c.Group, h.fp))
		}
		if c.I < 2 {
			tr := h.trace
			if len(tr) > 10 {
				tr = tr[:10]
			}
			c.Run.Sample(map[string]interface{}{"group": c.Group, "case": c.I, "universe": u.Name, "keys": len(u.Keys), "trace_prefix": tr})
		}
	}
}

// ---- exhaustive insertion orders ----

func permCase(c *core.Case) {
	r := c.R
	u := genUniverse(r, -1)
	max := c.Run.N(5, 6)
	if len(u.Keys) > max+2 {
		r.Shuffle(len(u.Keys), func(i, j int) { u.Keys[i], u.Keys[j] = u.Keys[j], u.Keys[i] })
		u.Keys = u.Keys[:max+2]
	}
	h := newHist(c, u, cfg{})
	h.guard(func() {
		m := map[string][]byte{}
		var extra []string
		for i, k := range u.Keys {
			if i < max && (i < 2 || r.Intn(5) > 0) {
				m[string(k)] = genVal(r, u.ValProfile)
			} else {
				extra = append(extra, string(k))
			}
		}
		spec, st, geth := h.refs(m)
		if !bytes.Equal(spec, geth) {
			h.cnt["reference_disagreements"]++
		}
		keys := sortedKeys(m)
		h.rec("all-orders", 0, nil, nil)
		for _, k := range keys {
			h.trace = append(h.trace, opRec{Op: "content", K: hex.EncodeToString([]byte(k)), V: hex.EncodeToString(m[k])})
		}
		var rec func(order []string, rest []string)
		rec = func(order []string, rest []string) {
			if len(rest) == 0 {
				t := trie.NewEmpty(h.db)
				for _, k := range order {
					t.Update([]byte(k), cp(m[k]))
				}
				// every extra key inserted last and deleted again must leave the same trie
				for _, k := range extra {
					t.Update([]byte(k), []byte{0xee, 0xee})
				}
				if len(extra) > 0 && len(order) > 0 && order[0] < order[len(order)-1] {
					t.Hash()
				}
				for _, k := range extra {
					t.Delete([]byte(k))
				}
				h.cnt["orders_checked"]++
				if got := t.Hash(); !bytes.Equal(got[:], spec) {
					var os []string
					for _, k := range order {
						os = append(os, hex.EncodeToString([]byte(k)))
					}
					h.fail("root-depends-on-history:exhaustive-order", fmt.Sprintf("insertion order %v (then insert+delete of %d further keys) gives root %x, specification %x", os, len(extra), got, spec))
				}
				return
			}
			for i := range rest {
				nr := append(append([]string{}, rest[:i]...), rest[i+1:]...)
				rec(append(order, rest[i]), nr)
			}
		}
		rec(nil, keys)
		h.run.Distinct("trie_shapes", shapeFP(st))
		if st.Branches > 0 && len(keys) >= 3 {
			c.Run.Nontrivial(fmt.Sprintf("perm|%x|%s", spec, u.Name))
		}
	})
}

// ---- DeriveSha ----

type blobList [][]byte

func (l blobList) Len() int                           { return len(l) }
func (l blobList) EncodeIndex(i int, w *bytes.Buffer) { w.Write(l[i]) }

var deriveLens = []int{0, 1, 2, 3, 16, 17, 126, 127, 128, 129, 130, 255, 256, 257, 300}

func deriveCase(c *core.Case) {
	r := c.R
	n := deriveLens[c.I%len(deriveLens)]
	if c.I >= len(deriveLens) && r.Intn(2) == 0 {
		n = r.Intn(400)
	}
	u := universe{Name: "rlp-index", PrefixFree: true}
	h := newHist(c, u, cfg{})
	h.guard(func() {
		prof := r.Intn(5)
		list := make(blobList, n)
		m := map[string][]byte{}
		for i := range list {
			list[i] = genVal(r, prof)
			m[string(rlpUint(uint64(i)))] = list[i]
		}
		h.rec("derive-sha", 0, []byte(fmt.Sprintf("len=%d,value-profile=%d", n, prof)), nil)
		spec, _, geth := h.refs(m)
		if !bytes.Equal(spec, geth) {
			h.cnt["reference_disagreements"]++
		}
		got1 := types.DeriveSha(list, trie.NewStackTrie(nil))
		got2 := types.DeriveSha(list, trie.NewEmpty(h.freshDB()))
		h.cnt["derive_sha"] += 2
		if !bytes.Equal(got1[:], spec) {
			h.fail("derive-sha-differs:stacktrie", fmt.Sprintf("DeriveSha(list of %d, StackTrie) = %x, specification root of {rlp(i): item_i} = %x", n, got1, spec))
		}
		if !bytes.Equal(got2[:], spec) {
			h.fail("derive-sha-differs:trie", fmt.Sprintf("DeriveSha(list of %d, Trie) = %x, specification root of {rlp(i): item_i} = %x", n, got2, spec))
		}
		// a reused hasher must give the same result (DeriveSha resets it)
		st := trie.NewStackTrie(nil)
		types.DeriveSha(blobList{[]byte{1, 2, 3}, []byte{4}}, st)
		if got := types.DeriveSha(list, st); !bytes.Equal(got[:], spec) {
			h.fail("derive-sha-differs:reused-hasher", fmt.Sprintf("DeriveSha with a reused StackTrie = %x, expected %x", got, spec))
		}
		tr := trie.NewEmpty(h.freshDB())
		types.DeriveSha(blobList{[]byte{1, 2, 3}, []byte{4}}, tr)
		if got := types.DeriveSha(list, tr); !bytes.Equal(got[:], spec) {
			h.fail("derive-sha-differs:reused-hasher", fmt.Sprintf("DeriveSha with a reused Trie = %x, expected %x", got, spec))
		}
		if n >= 2 {
			c.Run.Nontrivial(fmt.Sprintf("derive|%d|%x", n, spec))
		}
	})
}

func Main() {
	r := core.Start("C07", "exploration")
	r.SetRule("history = 1..400 operations (update / overwrite / delete / delete-absent / update-with-empty-value / get / hash / commit+reopen[+disk flush][+database restart] / copy-then-diverge / dereference / cap) on the real trie over a generated colliding key universe; after every operation Get is compared with a Go map and (per-case mode) the root with the yellow-paper root and a fresh go-ethereum v1.9.15 trie; at the end: all keys, iterator, insertion-order / commit-placement / insert-then-delete rebuilds, StackTrie, every proof with mutations, range proofs, reopen by root. Non-trivial = the content had a branch node at a root check and the history overwrote or deleted a present key; distinct by hash of the operation list")
	r.Assume("proof databases handed to VerifyProof / VerifyRangeProof are content-addressed (key = Keccak-256 of the node blob), as every receiver of a proof list builds them; VerifyProof itself does not re-hash what the database returns")
	r.Assume("StackTrie and VerifyRangeProof are specified for key sets in which no key is a proper prefix of another (StackTrie) resp. fixed-length keys (range proofs); Trie / iterator / Prove / VerifyProof / hashdb are exercised with prefix-related keys as well (branch nodes with values are part of the yellow-paper definition)")
	r.Assume("the go-ethereum v1.9.15 reference trie is only ever built fresh and hashed, never committed (its committer replaces a >=32-byte value in a branch node by a hash)")
	po := core.Opts{Procs: 12, StallSec: 240, MemMB: 8192}
	walls := map[string]float64{}
	group := func(name string, n int, o core.Opts, fn func(c *core.Case)) {
		t0 := time.Now()
		r.Cases(name, n, o, fn)
		walls[name] = time.Since(t0).Seconds() // reporting only, no verdict depends on it
	}
	group("corpus", numCorpus, core.Opts{Procs: numCorpus, StallSec: 240, MemMB: 8192}, corpusCase)
	group("history", r.N(2500, 80000), po, historyCase(false))
	group("secure", r.N(400, 10000), po, historyCase(true))
	group("perm", r.N(150, 2000), po, permCase)
	group("derive", r.N(45, 1500), po, deriveCase)
	r.Extra("group_wall_s", walls)
	r.Floor("op:delete", 1000)
	r.Floor("op:overwrite", 500)
	r.Floor("root_checks", 5000)
	r.Floor("delete_collapsed_branch", 100)
	r.Floor("reopens", 1000)
	r.Floor("spec_embedded_nodes", 500)
	r.Floor("spec_nodes_len31", 5)
	r.Floor("spec_nodes_len32", 5)
	r.Floor("spec_branch_values", 50)
	r.Floor("spec_last_nibble_forks", 50)
	r.Floor("stack_roots", 500)
	r.Floor("stack_marshal_roundtrips", 200)
	r.Floor("derive_sha", 50)
	r.Floor("iterations_prefix_related_keys", 50)
	r.Floor("corpus_scenarios", numCorpus)
	r.Floor("proofs_present", 2000)
	r.Floor("proofs_absent", 1000)
	r.Floor("proof_mutations", 20000)
	r.Floor("range_proofs", 300)
	r.Floor("range_tampers", 1000)
	r.Floor("kept_roots_read", 200)
	r.Floor("hash_after_100plus_updates", 20)
	r.Floor("orders_checked", 2000)
	r.Finish()
}
