package c07

import (
	"bytes"
	"encoding/hex"
	"fmt"
	"math/rand"

	"github.com/kardiachain/go-kardia/trie"

	"verifharness/core"
)

// The boundary corpus: fixed (seed-independent) scenarios placed where a defect of the
// anchored mechanisms shows: node encodings of exactly 31/32/33 bytes, every way a branch
// can be left with one child by a delete (in memory and through unresolved hash nodes),
// hash caching across modifications, wide branch nodes through commit, roots smaller
// than 32 bytes, stack-trie splits at every nibble of a short key, exhaustive proof
// mutations, range-proof enumeration, keys that are prefixes of other keys, and more
// than 100 unhashed updates (parallel hasher).

const numCorpus = 12

func hx(s string) []byte {
	b, err := hex.DecodeString(s)
	if err != nil {
		panic(err)
	}
	return b
}

func detVal(r *rand.Rand, n int) []byte {
	v := make([]byte, n)
	r.Read(v)
	if n > 0 && v[0] == 0 {
		v[0] = 1
	}
	return v
}

func corpusHist(c *core.Case, r *rand.Rand, name string, keys [][]byte, cf cfg) *hist {
	u := universe{Name: "corpus:" + name, Keys: keys, PrefixFree: isPrefixFree(keys), FixedLen: fixedLen(keys), ValProfile: 3}
	h := newHist(c, u, cf)
	h.r = r
	return h
}

func (h *hist) lightCheck(b *branch) {
	h.rec("light-check", 0, nil, nil)
	h.fullGets(b)
	root := b.s.hash()
	h.checkRoot(b, root, "final-hash")
	if d := h.compareIter(b.s.iter(nil), b.model, nil); d != "" {
		h.fail("iterator-differs:live", d)
	}
	h.cnt["iterations"]++
}

// subsets calls fn for every subset of {0..n-1} with lo..hi elements.
func subsets(n, lo, hi int, fn func(idx []int)) {
	var rec func(start int, cur []int)
	rec = func(start int, cur []int) {
		if len(cur) >= lo {
			fn(append([]int{}, cur...))
		}
		if len(cur) == hi {
			return
		}
		for i := start; i < n; i++ {
			rec(i+1, append(cur, i))
		}
	}
	rec(0, nil)
}

func corpusCase(c *core.Case) {
	r := rand.New(rand.NewSource(int64(7000 + c.I)))
	full := cfg{rootMode: 2, tamperKeys: 3, perms: 4}
	ok := true
	runFull := func(name string, keys [][]byte, cf cfg, script func(h *hist)) {
		h := corpusHist(c, r, name, keys, cf)
		done := false
		h.guard(func() {
			script(h)
			h.finalCheck(h.br[0], true)
			done = true
		})
		if !done {
			ok = false
		}
	}
	name := ""
	switch c.I {
	case 0:
		name = "embedding-threshold"
		// two leaves under a branch at the last nibble (+ a third key forking at the first nibble):
		// leaf encoding = 3+len(value) bytes, so 28/29/30-byte values give 31/32/33-byte nodes;
		// 5-byte values under a 2-child branch give a 32-byte branch node.
		for _, l := range []int{1, 2, 3, 32} {
			base := detVal(r, l)
			k0, k1, k2 := cp(base), cp(base), cp(base)
			k0[l-1] = k0[l-1]&0xf0 | 0x3
			k1[l-1] = k1[l-1]&0xf0 | 0xc
			k2[0] ^= 0x80
			for v := 1; v <= 40; v++ {
				v := v
				cf := full
				cf.tamperKeys = 1
				runFull(name, [][]byte{k0, k1, k2}, cf, func(h *hist) {
					h.opUpdate(h.br[0], k0, detVal(r, v))
					h.opUpdate(h.br[0], k1, detVal(r, v))
					if v%2 == 0 {
						h.opUpdate(h.br[0], k2, detVal(r, 41-v))
					}
				})
			}
		}
	case 1:
		name = "delete-collapse-enumeration"
		u8 := [][]byte{hx("1111"), hx("1112"), hx("1121"), hx("1211"), hx("2111"), hx("1122"), hx("11"), hx("111111"), hx("")}
		subsets(len(u8), 2, 4, func(idx []int) {
			for _, del := range idx {
				for mode := 0; mode < 2; mode++ {
					for _, vl := range []int{2, 33} {
						h := corpusHist(c, r, name, u8, cfg{rootMode: 2})
						done := false
						h.guard(func() {
							b := h.br[0]
							for _, i := range idx {
								h.opUpdate(b, u8[i], detVal(r, vl))
							}
							if mode == 1 {
								h.opCommit(b, false, false)
							}
							h.opDelete(b, u8[del])
							h.lightCheck(b)
							if mode == 1 {
								h.opCommit(b, false, false)
								h.lightCheck(b)
							}
							done = true
						})
						if !done {
							ok = false
						}
					}
				}
			}
		})
	case 2:
		name = "hash-caching"
		keys := [][]byte{hx("aaaa11"), hx("aaaa12"), hx("aaaa21"), hx("aabb11"), hx("bb0000"), hx("aaaa1f")}
		for _, vl := range []int{3, 40} {
			vl := vl
			runFull(name, keys, full, func(h *hist) {
				b := h.br[0]
				for i := 0; i < 5; i++ {
					h.opUpdate(b, keys[i], detVal(r, vl))
				}
				h.opUpdate(b, keys[0], detVal(r, vl+1)) // overwrite below two cached levels
				h.opDelete(b, keys[1])
				h.opDelete(b, keys[2])
				h.opUpdate(b, keys[1], detVal(r, vl))
				h.opCommit(b, false, false)
				h.opUpdate(b, keys[2], detVal(r, vl)) // modification below resolved hash nodes
				h.opUpdate(b, keys[5], detVal(r, vl))
				h.opDelete(b, keys[0])
				h.opUpdate(b, keys[0], detVal(r, vl))
				h.opUpdate(b, keys[0], nil)
			})
		}
	case 3:
		name = "wide-branch-commit"
		for variant := 0; variant < 2; variant++ {
			var keys [][]byte
			for i := 0; i < 16; i++ {
				keys = append(keys, []byte{byte(i << 4)}, []byte{byte(i<<4 | 0xf), byte(i)})
			}
			if variant == 1 {
				keys = append(keys, []byte{}, []byte{0xf0, 0x00})
			}
			runFull(name, keys, full, func(h *hist) {
				b := h.br[0]
				for _, k := range keys {
					h.opUpdate(b, k, detVal(r, 40))
				}
				h.opCommit(b, false, false)
				for i, k := range keys {
					if i%5 == 0 {
						h.opDelete(b, k)
					}
				}
				h.opCommit(b, true, false)
				h.opUpdate(b, keys[0], detVal(r, 2))
			})
		}
	case 4:
		name = "tiny-root"
		for _, ks := range [][][]byte{{hx("12")}, {hx("12"), hx("13")}, {hx("")}, {hx("0102"), hx("0103"), hx("01")}} {
			ks := ks
			for _, vl := range []int{1, 2, 3} {
				vl := vl
				cf := full
				cf.exhaustive = true
				runFull(name, append(ks, hx("99")), cf, func(h *hist) {
					for _, k := range ks {
						h.opUpdate(h.br[0], k, detVal(r, vl))
					}
				})
			}
		}
		// the empty trie
		runFull(name, [][]byte{hx("01"), hx("")}, full, func(h *hist) {
			h.opUpdate(h.br[0], hx("01"), detVal(r, 5))
			h.opDelete(h.br[0], hx("01"))
		})
	case 5:
		name = "stack-trie-splits"
		var u16 [][]byte
		for i := 0; i < 16; i++ {
			n := []byte{0xa, 0xa, 0xa, 0xa}
			for bit := 0; bit < 4; bit++ {
				if i>>uint(bit)&1 == 1 {
					n[bit] = 0xb
				}
			}
			u16 = append(u16, []byte{n[0]<<4 | n[1], n[2]<<4 | n[3]})
		}
		pad := detVal(r, 30)
		for variant := 0; variant < 2; variant++ {
			keys := u16
			if variant == 1 {
				keys = nil
				for _, k := range u16 {
					keys = append(keys, append(cp(pad), k...))
				}
			}
			for _, vl := range []int{1, 29, 34} {
				h := corpusHist(c, r, name, keys, cfg{})
				done := false
				h.guard(func() {
					subsets(len(keys), 2, 4, func(idx []int) {
						m := map[string][]byte{}
						for _, i := range idx {
							m[string(keys[i])] = detVal(r, vl)
						}
						spec, st := specRoot(m)
						s := trie.NewStackTrie(nil)
						for _, k := range sortedKeys(m) {
							s.Update([]byte(k), cp(m[k]))
						}
						h.cnt["stack_roots"]++
						h.cnt["spec_last_nibble_forks"] += st.LastNibbleFork
						h.run.Eval(1)
						if got := s.Hash(); !bytes.Equal(got[:], spec) {
							h.trace = nil
							for _, k := range sortedKeys(m) {
								h.trace = append(h.trace, opRec{Op: "stack-update", K: hex.EncodeToString([]byte(k)), V: hex.EncodeToString(m[k])})
							}
							h.fail("stack-root-differs", fmt.Sprintf("StackTrie over %d sorted keys gives %x, specification %x", len(m), got, spec))
						}
					})
					done = true
				})
				if !done {
					ok = false
				}
			}
		}
	case 6:
		name = "proof-exhaustive-mutation"
		sets := [][][]byte{
			{hx("1234"), hx("1235"), hx("1334"), hx("9234")},
			{hx("646f"), hx("646f67"), hx("646f6765"), hx("686f727365")}, // do dog doge horse
		}
		k32 := make([][]byte, 4)
		for i := range k32 {
			k32[i] = detVal(r, 32)
			if i > 0 {
				copy(k32[i], k32[0][:i*10])
			}
		}
		sets = append(sets, k32)
		for _, ks := range sets {
			ks := ks
			for _, vl := range []int{3, 40} {
				vl := vl
				cf := full
				cf.exhaustive = true
				runFull(name, ks, cf, func(h *hist) {
					for i, k := range ks {
						h.opUpdate(h.br[0], k, detVal(r, vl+i))
					}
					h.opCommit(h.br[0], false, false)
					h.opUpdate(h.br[0], ks[0], detVal(r, vl+7))
				})
			}
		}
	case 7:
		name = "range-proof-enumeration"
		for _, al := range [][]byte{{0x00, 0x01, 0xff}, {0x10, 0x11, 0x1f, 0xf0}} {
			var keys [][]byte
			for _, a := range al {
				for _, b := range al {
					keys = append(keys, []byte{a, b})
				}
			}
			for _, take := range []int{1, 2, 3, 5, len(keys)} {
				take := take
				for _, vl := range []int{2, 36} {
					vl := vl
					cf := full
					cf.rangeRounds = 12
					cf.tamperKeys = 1
					runFull(name, keys, cf, func(h *hist) {
						p := r.Perm(len(keys))
						for _, i := range p[:take] {
							h.opUpdate(h.br[0], keys[i], detVal(r, vl))
						}
					})
				}
			}
		}
	case 8:
		name = "prefix-keys"
		// the reference-trie calibration scenario (a >=32-byte value in a branch node across a commit)
		k1, k2, k3 := hx("00001221"), hx("00"), hx("0000")
		runFull(name, [][]byte{k1, k2, k3, hx("000012"), hx("")}, full, func(h *hist) {
			b := h.br[0]
			h.opUpdate(b, k1, hx("7a"))
			h.opUpdate(b, k2, detVal(r, 70))
			h.opCommit(b, false, false)
			h.opUpdate(b, k3, detVal(r, 22))
			h.opHash(b)
			h.opCommit(b, false, false)
			h.opDelete(b, k2)
		})
		words := [][]byte{[]byte("do"), []byte("dog"), []byte("doge"), []byte("doe"), []byte("dogglesworth"), []byte("horse"), []byte("d"), []byte("")}
		for _, vl := range []int{4, 33} {
			vl := vl
			runFull(name, words, full, func(h *hist) {
				b := h.br[0]
				for _, w := range words {
					h.opUpdate(b, w, detVal(r, vl))
				}
				h.opCommit(b, false, false)
				h.opDelete(b, []byte("dog"))
				h.opDelete(b, []byte(""))
				h.opUpdate(b, []byte("dog"), detVal(r, vl+1))
				h.opDelete(b, []byte("doge"))
				h.opDelete(b, []byte("dogglesworth"))
			})
		}
	case 9:
		name = "parallel-hasher"
		var keys [][]byte
		for i := 0; i < 260; i++ {
			keys = append(keys, detVal(r, 32))
		}
		cf := full
		cf.rootMode = 0
		runFull(name, keys, cf, func(h *hist) {
			b := h.br[0]
			for _, k := range keys[:200] {
				h.opUpdate(b, k, detVal(r, 40))
			}
			h.opHash(b)
			for i, k := range keys {
				if i%2 == 0 {
					h.opDelete(b, k)
				} else {
					h.opUpdate(b, k, detVal(r, 3+i%40))
				}
			}
		})
	case 10:
		name = "copy-diverge"
		keys := [][]byte{hx("a1b1"), hx("a1b2"), hx("a2b1"), hx("c000"), hx("a1b3")}
		for _, vl := range []int{2, 35} {
			vl := vl
			h := corpusHist(c, r, name, keys, full)
			done := false
			h.guard(func() {
				b := h.br[0]
				for _, k := range keys[:4] {
					h.opUpdate(b, k, detVal(r, vl))
				}
				h.rec("copy", 0, nil, nil)
				b2 := &branch{s: b.s.copy(), model: clone(b.model), base: b.base}
				h.br = append(h.br, b2)
				h.opDelete(b2, keys[0])
				h.opUpdate(b, keys[0], detVal(r, vl+1))
				h.opUpdate(b2, keys[4], detVal(r, vl))
				h.opDelete(b, keys[3])
				h.opCommit(b2, false, false)
				h.opUpdate(b, keys[1], detVal(r, vl+2))
				h.fullGets(b)
				h.fullGets(b2)
				h.finalCheck(b2, false)
				h.finalCheck(b, true)
				done = true
			})
			if !done {
				ok = false
			}
		}
	case 11:
		name = "large-single-flush"
		// one Database.Commit that writes several hundred kB of nodes (the flush works in batches of about 100 kB),
		// then a database restart: every entry must still be readable from disk alone; then a second large flush
		// of overwrites and deletions, read back through a reopened trie
		for _, n := range []int{1500, 4000} {
			keys := make([][]byte, n)
			for i := range keys {
				keys[i] = detVal(r, 32)
			}
			h := corpusHist(c, r, name, keys, cfg{rootMode: 0})
			done := false
			h.guard(func() {
				b := h.br[0]
				for _, k := range keys {
					h.opUpdate(b, k, detVal(r, 40+r.Intn(60)))
				}
				h.opCommit(b, true, true)
				h.fullGets(b)
				h.checkIter(b, b.s, "reopened")
				for i, k := range keys {
					switch i % 3 {
					case 0:
						h.opUpdate(b, k, detVal(r, 33+r.Intn(40)))
					case 1:
						h.opDelete(b, k)
					}
				}
				h.opCommit(b, true, false)
				h.fullGets(b)
				h.opCommit(b, true, true)
				h.fullGets(b)
				h.checkRoot(b, b.s.hash(), "final-hash")
				h.cnt["large_flushes_read_back"] += 3
				done = true
			})
			if !done {
				ok = false
			}
		}
	}
	if ok {
		c.Run.Nontrivial("corpus:" + name)
		c.Run.Count("corpus_scenarios", 1)
	}
}
