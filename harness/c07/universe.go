package c07

import (
	"math/rand"
	"sort"
)

// universe is a finite key set built to collide, from which a history draws.
type universe struct {
	Name       string
	Keys       [][]byte
	PrefixFree bool // no key is a proper prefix of another (always true for fixed length)
	FixedLen   int  // >0: all keys have this length
	ValProfile int
}

var nibbleAlphabets = [][]byte{{0, 1}, {0, 15}, {0, 1, 2}, {7, 8}, {0, 1, 15}, {0, 8, 15}, {1, 2, 3, 4}, {0, 1, 2, 3, 4, 5, 6, 7, 8, 9, 10, 11, 12, 13, 14, 15}}

func dedup(keys [][]byte) [][]byte {
	seen := map[string]bool{}
	var out [][]byte
	for _, k := range keys {
		if !seen[string(k)] {
			seen[string(k)] = true
			out = append(out, k)
		}
	}
	return out
}

func isPrefixFree(keys [][]byte) bool {
	s := make([]string, len(keys))
	for i, k := range keys {
		s[i] = string(k)
	}
	sort.Strings(s)
	for i := 0; i+1 < len(s); i++ {
		if len(s[i]) < len(s[i+1]) && s[i+1][:len(s[i])] == s[i] {
			return false
		}
	}
	return true
}

func fixedLen(keys [][]byte) int {
	if len(keys) == 0 {
		return 0
	}
	l := len(keys[0])
	for _, k := range keys {
		if len(k) != l {
			return 0
		}
	}
	return l
}

func randFromAlphabet(r *rand.Rand, n int, al []byte) []byte {
	k := make([]byte, n)
	for i := range k {
		k[i] = al[r.Intn(len(al))]<<4 | al[r.Intn(len(al))]
	}
	return k
}

const numUniverseKinds = 8

// genUniverse builds one universe of the given kind (kind<0: random kind).
func genUniverse(r *rand.Rand, kind int) universe {
	if kind < 0 {
		kind = r.Intn(numUniverseKinds)
	}
	n := 2 + r.Intn(14)
	switch r.Intn(6) {
	case 0:
		n = 1 + r.Intn(3)
	case 1:
		n = 16 + r.Intn(48)
	}
	var keys [][]byte
	name := ""
	switch kind {
	case 0: // 32-byte keys with shared prefixes of 0..63 nibbles
		name = "fixed32-shared-prefix"
		base := make([]byte, 32)
		r.Read(base)
		keys = append(keys, base)
		for len(keys) < n {
			src := keys[r.Intn(len(keys))]
			k := append([]byte{}, src...)
			var p int
			switch r.Intn(4) {
			case 0:
				p = []int{0, 1, 2, 3, 31, 32, 61, 62, 63, 63}[r.Intn(10)]
			case 1:
				p = 63 // diverge at the last nibble
			default:
				p = r.Intn(64)
			}
			nv := byte(r.Intn(16))
			if r.Intn(2) == 0 {
				nv = []byte{0, 1, 15}[r.Intn(3)]
			}
			if p%2 == 0 {
				k[p/2] = nv<<4 | k[p/2]&15
			} else {
				k[p/2] = k[p/2]&0xf0 | nv
			}
			if r.Intn(2) == 0 && p/2+1 < 32 {
				r.Read(k[p/2+1:])
			}
			keys = append(keys, k)
		}
	case 1: // short fixed length over a tiny nibble alphabet: dense collisions, embedded nodes
		name = "fixed-short-dense"
		l := 1 + r.Intn(4)
		al := nibbleAlphabets[r.Intn(len(nibbleAlphabets))]
		for i := 0; i < n; i++ {
			keys = append(keys, randFromAlphabet(r, l, al))
		}
	case 2: // keys that are prefixes of each other, padded to equal length
		name = "prefix-chain-padded"
		l := 2 + r.Intn(7)
		if r.Intn(5) == 0 {
			l = 32
		}
		al := nibbleAlphabets[r.Intn(len(nibbleAlphabets)-1)]
		pad := []byte{0x00, 0x00, 0xff, 0x11}[r.Intn(4)]
		for len(keys) < n {
			s := randFromAlphabet(r, l, al)
			for cut := 1; cut <= l && len(keys) < n; cut++ {
				if r.Intn(3) == 0 {
					continue
				}
				k := make([]byte, l)
				for i := range k {
					k[i] = pad
				}
				copy(k, s[:cut])
				// odd nibble prefix: keep only the high nibble of the last copied byte
				if r.Intn(3) == 0 {
					k[cut-1] = s[cut-1]&0xf0 | pad&15
				}
				keys = append(keys, k)
			}
		}
	case 3: // variable length 1..40, prefix-free through a terminator byte
		name = "varlen-terminated"
		al := [][]byte{{0x00, 0x01, 0x10, 0x11}, {0x00, 0xf0, 0x0f}, {0xaa, 0xab, 0xba}}[r.Intn(3)]
		for i := 0; i < n; i++ {
			l := r.Intn(6)
			if r.Intn(8) == 0 {
				l = r.Intn(40)
			}
			k := make([]byte, l, l+1)
			for j := range k {
				k[j] = al[r.Intn(len(al))]
			}
			if len(keys) > 0 && r.Intn(2) == 0 { // extend an existing body
				src := keys[r.Intn(len(keys))]
				body := src[:len(src)-1]
				if len(body)+l <= 39 {
					k = append(append([]byte{}, body...), k...)
				}
			}
			keys = append(keys, append(k, 0xff))
		}
	case 4: // variable length, keys that ARE prefixes of each other (branch nodes with values)
		name = "varlen-prefix-related"
		al := [][]byte{{0x00, 0x01, 0x10, 0x11}, {0x00, 0xf0, 0xff}, {0x12, 0x13, 0x23}, {0x00}}[r.Intn(4)]
		for len(keys) < n {
			l := r.Intn(6)
			if r.Intn(8) == 0 {
				l = r.Intn(41)
			}
			s := make([]byte, l)
			for j := range s {
				s[j] = al[r.Intn(len(al))]
			}
			keys = append(keys, s)
			for cut := l - 1; cut >= 1 && len(keys) < n; cut-- {
				if r.Intn(2) == 0 {
					keys = append(keys, s[:cut])
				}
			}
		}
		if r.Intn(4) == 0 {
			keys = append(keys, []byte{}) // the empty key
		}
	case 5: // RLP-encoded list indices, the key set of DeriveSha
		name = "rlp-index"
		cands := []uint64{0, 1, 2, 0x7e, 0x7f, 0x80, 0x81, 0xff, 0x100, 0x101, 0xffff, 0x10000}
		for i := 0; i < n; i++ {
			x := cands[r.Intn(len(cands))]
			if r.Intn(2) == 0 {
				x = uint64(r.Intn(300))
			}
			keys = append(keys, rlpUint(x))
		}
	case 6: // random short keys: wide branch nodes
		name = "random-short"
		l := 1 + r.Intn(3)
		for i := 0; i < n; i++ {
			k := make([]byte, l)
			r.Read(k)
			keys = append(keys, k)
		}
	case 7: // random 32-byte keys that share their first byte(s) (hashed-key look-alike)
		name = "fixed32-random"
		head := make([]byte, r.Intn(3))
		r.Read(head)
		for i := 0; i < n; i++ {
			k := make([]byte, 32)
			r.Read(k)
			copy(k, head)
			keys = append(keys, k)
		}
	}
	keys = dedup(keys)
	u := universe{Name: name, Keys: keys, PrefixFree: isPrefixFree(keys), FixedLen: fixedLen(keys), ValProfile: r.Intn(5)}
	return u
}

// genVal draws a non-empty value. profile: 0 tiny (many embedded nodes), 1 around the 32-byte
// node-embedding threshold, 2 large, 3/4 mixed.
func genVal(r *rand.Rand, profile int) []byte {
	var l int
	switch profile {
	case 0:
		l = 1 + r.Intn(6)
	case 1:
		l = 20 + r.Intn(20)
	case 2:
		l = 33 + r.Intn(90)
		if r.Intn(10) == 0 {
			l = 250 + r.Intn(100)
		}
	default:
		switch r.Intn(7) {
		case 0:
			l = 1
		case 1:
			l = 2 + r.Intn(22)
		case 2:
			l = 24 + r.Intn(12)
		case 3:
			l = 32
		case 4:
			l = 33 + r.Intn(30)
		case 5:
			l = 55 + r.Intn(3) // RLP long-string boundary
		case 6:
			l = 60 + r.Intn(200)
		}
	}
	v := make([]byte, l)
	r.Read(v)
	if l == 1 && r.Intn(2) == 0 {
		v[0] = []byte{0x00, 0x01, 0x7f, 0x80, 0x81, 0xc0, 0xff}[r.Intn(7)]
	}
	if r.Intn(12) == 0 { // values that look like node encodings
		switch r.Intn(3) {
		case 0:
			v[0] = 0xc0 + byte((l-1)%56)
		case 1:
			v[0] = 0xa0
		case 2:
			for i := range v {
				v[i] = 0x80
			}
		}
	}
	return v
}
