package c07

// Reference model of C07, written from the property text and the public
// specification (Ethereum yellow paper, appendices B, C and D): the map is a Go
// map, the root is the recursive definition c(J,i)/n(J,i) over the sorted
// key/value set with its own RLP and hex-prefix encoders. Nothing here calls
// go-kardia code (Keccak-256 comes from golang.org/x/crypto).

import (
	"bytes"
	"sort"

	"golang.org/x/crypto/sha3"
)

func keccak(b []byte) []byte {
	h := sha3.NewLegacyKeccak256()
	h.Write(b)
	return h.Sum(nil)
}

// ---- RLP (appendix B) ----

func beLen(n int) []byte {
	var out []byte
	for n > 0 {
		out = append([]byte{byte(n)}, out...)
		n >>= 8
	}
	return out
}

func rlpStr(b []byte) []byte {
	if len(b) == 1 && b[0] < 0x80 {
		return []byte{b[0]}
	}
	if len(b) < 56 {
		return append([]byte{0x80 + byte(len(b))}, b...)
	}
	l := beLen(len(b))
	return append(append([]byte{0xb7 + byte(len(l))}, l...), b...)
}

// rlpList wraps already encoded items.
func rlpList(items ...[]byte) []byte {
	var p []byte
	for _, it := range items {
		p = append(p, it...)
	}
	if len(p) < 56 {
		return append([]byte{0xc0 + byte(len(p))}, p...)
	}
	l := beLen(len(p))
	return append(append([]byte{0xf7 + byte(len(l))}, l...), p...)
}

func rlpUint(x uint64) []byte {
	if x == 0 {
		return []byte{0x80}
	}
	return rlpStr(beLen(int(x)))
}

// ---- hex-prefix encoding (appendix C) ----

func hp(nib []byte, leaf bool) []byte {
	f := byte(0)
	if leaf {
		f = 2
	}
	var out []byte
	if len(nib)%2 == 1 {
		out = append(out, (f+1)<<4|nib[0])
		nib = nib[1:]
	} else {
		out = append(out, f<<4)
	}
	for i := 0; i < len(nib); i += 2 {
		out = append(out, nib[i]<<4|nib[i+1])
	}
	return out
}

func nibbles(k []byte) []byte {
	out := make([]byte, 0, 2*len(k))
	for _, b := range k {
		out = append(out, b>>4, b&15)
	}
	return out
}

// ---- trie root (appendix D) ----

type specKV struct {
	nib []byte
	val []byte
}

// specStats describes the structure the specification prescribes for a content;
// it is how the monitor knows which mechanisms a case reached.
type specStats struct {
	Leaves, Exts, Branches int
	BranchValues           int // branch nodes carrying a value (a key that is a prefix of another)
	Embedded               int // non-root nodes whose encoding is < 32 bytes
	Hashed                 int // non-root nodes referenced by hash
	Len31, Len32, Len33    int // non-root nodes right at the embedding threshold
	TwoChildBranches       int
	LastNibbleFork         int // branch whose children are all leaves with empty remaining path
	Depth                  int
	shape                  []byte
}

func (s *specStats) node(enc []byte, root bool) {
	if root {
		return
	}
	switch {
	case len(enc) < 32:
		s.Embedded++
	default:
		s.Hashed++
	}
	switch len(enc) {
	case 31:
		s.Len31++
	case 32:
		s.Len32++
	case 33:
		s.Len33++
	}
}

func specC(J []specKV, i int, st *specStats, depth int) []byte {
	if depth > st.Depth {
		st.Depth = depth
	}
	if len(J) == 1 {
		st.Leaves++
		st.shape = append(st.shape, 'L', byte('0'+(len(J[0].nib)-i)%2))
		return rlpList(rlpStr(hp(J[0].nib[i:], true)), rlpStr(J[0].val))
	}
	// longest common prefix of all keys in J (sorted: compare first and last), bounded by the shortest key
	j := len(J[0].nib)
	for _, e := range J {
		if len(e.nib) < j {
			j = len(e.nib)
		}
	}
	a, b := J[0].nib, J[len(J)-1].nib
	for x := i; x < j; x++ {
		if a[x] != b[x] {
			j = x
			break
		}
	}
	if j > i {
		st.Exts++
		st.shape = append(st.shape, 'E', byte('0'+(j-i)%2), '(')
		child := specN(J, j, st, depth+1)
		st.shape = append(st.shape, ')')
		return rlpList(rlpStr(hp(a[i:j], false)), child)
	}
	st.Branches++
	st.shape = append(st.shape, 'B', '(')
	items := make([][]byte, 0, 17)
	var v []byte
	kids, leafKids := 0, 0
	for x := 0; x < 16; x++ {
		var sub []specKV
		for _, e := range J {
			if len(e.nib) > i && e.nib[i] == byte(x) {
				sub = append(sub, e)
			}
		}
		if len(sub) > 0 {
			kids++
			if len(sub) == 1 && len(sub[0].nib) == i+1 {
				leafKids++
			}
			st.shape = append(st.shape, "0123456789abcdef"[x])
		}
		items = append(items, specN(sub, i+1, st, depth+1))
	}
	for _, e := range J {
		if len(e.nib) == i {
			v = e.val
		}
	}
	if v != nil {
		st.BranchValues++
		kids++
		st.shape = append(st.shape, 'v')
	}
	if kids == 2 {
		st.TwoChildBranches++
	}
	if leafKids >= 2 && leafKids == kids {
		st.LastNibbleFork++
	}
	st.shape = append(st.shape, ')')
	items = append(items, rlpStr(v))
	return rlpList(items...)
}

func specN(J []specKV, i int, st *specStats, depth int) []byte {
	if len(J) == 0 {
		return []byte{0x80}
	}
	enc := specC(J, i, st, depth)
	st.node(enc, false)
	if len(enc) < 32 {
		return enc
	}
	return rlpStr(keccak(enc))
}

var specEmptyRoot = keccak([]byte{0x80})

func sortedKeys(m map[string][]byte) []string {
	ks := make([]string, 0, len(m))
	for k := range m {
		ks = append(ks, k)
	}
	sort.Strings(ks)
	return ks
}

// specRoot is TRIE(J) of the yellow paper for the content m (no empty values in m).
func specRoot(m map[string][]byte) ([]byte, *specStats) {
	st := &specStats{}
	if len(m) == 0 {
		return specEmptyRoot, st
	}
	var J []specKV
	for _, k := range sortedKeys(m) {
		J = append(J, specKV{nibbles([]byte(k)), m[k]})
	}
	sort.SliceStable(J, func(a, b int) bool { return bytes.Compare(J[a].nib, J[b].nib) < 0 })
	return keccak(specC(J, 0, st, 0)), st
}

// prefixFree reports whether no key of m is a proper prefix of another.
func prefixFree(m map[string][]byte) bool {
	ks := sortedKeys(m)
	for i := 0; i+1 < len(ks); i++ {
		if len(ks[i]) < len(ks[i+1]) && ks[i+1][:len(ks[i])] == ks[i] {
			return false
		}
	}
	return true
}

// pathOrder sorts keys the way a trie walk meets them: by nibble path with the
// terminator greater than every nibble, i.e. bytewise, except that a key comes
// after all keys it is a proper prefix of. For prefix-free sets this is plain
// bytewise order.
func pathOrder(keys []string) []string {
	out := append([]string{}, keys...)
	sort.Slice(out, func(i, j int) bool { return pathLess(out[i], out[j]) })
	return out
}

func pathLess(a, b string) bool {
	n := len(a)
	if len(b) < n {
		n = len(b)
	}
	if a[:n] != b[:n] {
		return a[:n] < b[:n]
	}
	// one is a prefix of the other (or equal): the longer one first
	return len(a) > len(b)
}
