package c07

import (
	"bytes"
	"fmt"
	"sort"

	"github.com/kardiachain/go-kardia/kai/kaidb/memorydb"
	"github.com/kardiachain/go-kardia/lib/common"
	"github.com/kardiachain/go-kardia/trie"
)

// proofRec receives what Prove writes: the proof as an ordered list of node blobs.
type proofRec struct {
	keys  [][]byte
	blobs [][]byte
}

func (p *proofRec) Put(k, v []byte) error {
	p.keys = append(p.keys, cp(k))
	p.blobs = append(p.blobs, cp(v))
	return nil
}
func (p *proofRec) Delete(k []byte) error { return nil }

// caDB is what the receiver of a proof list builds: every blob under its own hash.
func caDB(blobs [][]byte) *memorydb.Database {
	db := memorydb.New()
	for _, b := range blobs {
		db.Put(keccak(b), b)
	}
	return db
}

func (h *hist) verify(root common.Hash, key []byte, blobs [][]byte) ([]byte, error, bool) {
	v, err := trie.VerifyProof(root, key, caDB(blobs))
	return v, err, false
}

func (h *hist) proveKey(s subj, ck []byte) [][]byte {
	rec := &proofRec{}
	if err := s.prove(ck, rec); err != nil {
		h.fail("prove-error", fmt.Sprintf("Prove(%x) failed: %v", ck, err))
	}
	for i, b := range rec.blobs {
		if !bytes.Equal(keccak(b), rec.keys[i]) {
			h.fail("proof-node-not-under-its-hash", fmt.Sprintf("Prove(%x) stored node %x under key %x (its hash is %x)", ck, b, rec.keys[i], keccak(b)))
		}
	}
	return rec.blobs
}

// checkProofs: completeness for every key of the universe (present and absent) and a few
// near misses, then soundness under mutations for a sample of them.
func (h *hist) checkProofs(b *branch, s subj, root common.Hash, where string) {
	if len(b.model) == 0 {
		// an empty trie has no root node: Prove writes nothing and there is nothing to verify against
		h.cnt["proofs_skipped_empty_trie"]++
		return
	}
	h.rec("proofs:"+where, 0, nil, nil)
	var cks [][]byte
	seen := map[string]bool{}
	add := func(k []byte) {
		if !seen[string(k)] {
			seen[string(k)] = true
			cks = append(cks, k)
		}
	}
	for _, k := range h.u.Keys {
		add([]byte(h.ck(k)))
	}
	present := sortedKeys(b.model)
	for i := 0; i < 4; i++ { // near misses: cut / extended / last-nibble-changed present keys, random keys
		var k []byte
		if len(present) > 0 && h.r.Intn(4) > 0 {
			k = cp([]byte(present[h.r.Intn(len(present))]))
			switch h.r.Intn(3) {
			case 0:
				if len(k) > 0 {
					k[len(k)-1] ^= byte(1 + h.r.Intn(15))
				}
			case 1:
				if len(k) > 0 && !h.cfg.secure && h.u.FixedLen == 0 {
					k = k[:len(k)-1]
				}
			case 2:
				if !h.cfg.secure && h.u.FixedLen == 0 {
					k = append(k, byte(h.r.Intn(256)))
				} else if len(k) > 0 {
					k[h.r.Intn(len(k))] ^= byte(1 << uint(h.r.Intn(8)))
				}
			}
		} else {
			l := h.u.FixedLen
			if l == 0 {
				l = h.r.Intn(5)
			}
			k = make([]byte, l)
			h.r.Read(k)
		}
		add(k)
	}
	proofs := map[string][][]byte{}
	var pool [][]byte
	for _, ck := range cks {
		blobs := h.proveKey(s, ck)
		want := b.model[string(ck)]
		val, err, _ := h.verify(root, ck, blobs)
		kind := "present"
		if want == nil {
			kind = "absent"
		}
		if err != nil {
			h.fail("proof-does-not-verify:"+kind+":"+where, fmt.Sprintf("proof of %x (%d nodes) against root %x: %v", ck, len(blobs), root, err))
		}
		if !bytes.Equal(val, want) {
			h.fail("proof-verifies-to-other-value:"+kind+":"+where, fmt.Sprintf("proof of %x verifies to %x, stored value %x", ck, val, want))
		}
		h.cnt["proofs_"+kind]++
		h.cnt["proof_nodes"] += len(blobs)
		if len(b.model) > 0 && len(blobs) == 1 && len(blobs[0]) < 32 {
			h.cnt["proofs_with_small_root"]++
		}
		proofs[string(ck)] = blobs
		if len(pool) < 12 {
			pool = append(pool, blobs...)
		}
	}
	// stale material: the same keys proven in older committed versions of the content
	type staleT struct {
		root  common.Hash
		blobs [][]byte
		key   string
	}
	var stale []staleT
	for _, e := range h.roots {
		if e.root == root || len(stale) >= 4 {
			continue
		}
		t, err := trie.New(trie.TrieID(e.root), h.db)
		if err != nil {
			continue
		}
		for _, ck := range cks {
			if !bytes.Equal(e.model[string(ck)], b.model[string(ck)]) {
				rec := &proofRec{}
				if t.Prove(ck, 0, rec) == nil {
					stale = append(stale, staleT{e.root, rec.blobs, string(ck)})
					pool = append(pool, rec.blobs...)
				}
				break
			}
		}
	}
	// mutations
	order := h.r.Perm(len(cks))
	limit := h.cfg.tamperKeys
	exh := h.cfg.exhaustive
	if exh && where == "live" {
		limit = len(cks)
	}
	if where != "live" {
		h.cfg.exhaustive = false // exhaustive mutation once per content is enough
	}
	defer func() { h.cfg.exhaustive = exh }()
	for n, idx := range order {
		if n >= limit {
			break
		}
		ck := cks[idx]
		h.tamper(root, ck, proofs[string(ck)], b.model[string(ck)], pool)
	}
	for _, st := range stale {
		want := b.model[st.key]
		val, err, _ := h.verify(root, []byte(st.key), st.blobs)
		h.cnt["proof_mutations"]++
		h.cnt["stale_proofs"]++
		if err == nil && !bytes.Equal(val, want) {
			h.fail("tampered-proof-accepted:stale-proof", fmt.Sprintf("proof of %x made for the older root %x verifies against %x to %x; stored value %x", st.key, st.root, root, val, want))
		}
		// current proof with single nodes replaced by the stale ones at the same depth
		cur := proofs[st.key]
		for i := range cur {
			if i < len(st.blobs) {
				mut := append([][]byte{}, cur...)
				mut[i] = st.blobs[i]
				h.judge(root, []byte(st.key), mut, want, "stale-node", fmt.Sprintf("node %d replaced by the node of the proof for older root %x", i, st.root))
			}
		}
	}
}

// judge applies the soundness rule to one mutated proof: an error, or the true value.
func (h *hist) judge(root common.Hash, ck []byte, mut [][]byte, want []byte, kind, what string) {
	val, err, _ := h.verify(root, ck, mut)
	h.cnt["proof_mutations"]++
	h.cnt["proof_mutations:"+kind]++
	if err != nil {
		h.cnt["mutation_rejected"]++
		return
	}
	if !bytes.Equal(val, want) {
		h.trace = append(h.trace, opRec{Op: "tamper:" + kind + ": " + what, K: fmt.Sprintf("%x", ck)})
		h.fail("tampered-proof-accepted:"+kind, fmt.Sprintf("proof of %x with %s verifies without error to %x; stored value %x", ck, what, val, want))
	}
	h.cnt["mutation_gave_true_value"]++
}

func (h *hist) tamper(root common.Hash, ck []byte, blobs [][]byte, want []byte, pool [][]byte) {
	with := func(i int, nb []byte) [][]byte {
		mut := append([][]byte{}, blobs...)
		mut[i] = nb
		return mut
	}
	for i, blob := range blobs {
		// single-byte mutations
		var pos []int
		if h.cfg.exhaustive || len(blob) <= 24 {
			for p := range blob {
				pos = append(pos, p)
			}
		} else {
			pos = []int{0, 1, 2, len(blob) - 1, len(blob) - 2}
			for j := 0; j < 8; j++ {
				pos = append(pos, h.r.Intn(len(blob)))
			}
		}
		for _, p := range pos {
			var vals []byte
			switch {
			case h.cfg.exhaustive && len(blob) <= 48:
				for x := 1; x < 256; x++ {
					vals = append(vals, blob[p]^byte(x))
				}
			case h.cfg.exhaustive:
				for bit := uint(0); bit < 8; bit++ { // every single-bit flip
					vals = append(vals, blob[p]^(1<<bit))
				}
			default:
				vals = []byte{blob[p] ^ 1, blob[p] ^ 0x80, blob[p] ^ byte(1+h.r.Intn(255))}
			}
			for _, nv := range vals {
				nb := cp(blob)
				nb[p] = nv
				h.judge(root, ck, with(i, nb), want, "byte", fmt.Sprintf("byte %d of node %d set to %02x", p, i, nv))
			}
		}
		// in-place probe of the stated precondition (not judged): the mutated blob is left under
		// the ORIGINAL hash, i.e. the database is not content-addressed
		if len(blob) > 0 {
			p := h.r.Intn(len(blob))
			nb := cp(blob)
			nb[p] ^= byte(1 + h.r.Intn(255))
			db := caDB(blobs)
			db.Put(keccak(blob), nb)
			func() {
				defer func() {
					if recover() != nil {
						h.cnt["precondition_probe_panics"]++
					}
				}()
				v, err := trie.VerifyProof(root, ck, db)
				h.cnt["precondition_probe_total"]++
				if err == nil && !bytes.Equal(v, want) {
					h.cnt["precondition_probe_other_value_without_error"]++
				}
			}()
		}
		// length mutations
		if len(blob) > 1 {
			h.judge(root, ck, with(i, blob[:len(blob)-1]), want, "truncate", fmt.Sprintf("node %d cut by one byte", i))
		}
		h.judge(root, ck, with(i, append(cp(blob), 0)), want, "extend", fmt.Sprintf("node %d extended by one byte", i))
		// node drop
		mut := append(append([][]byte{}, blobs[:i]...), blobs[i+1:]...)
		h.judge(root, ck, mut, want, "drop", fmt.Sprintf("node %d dropped", i))
		// node substitution: another node of the same proof, nodes of other proofs / older versions
		for j := range blobs {
			if j != i {
				h.judge(root, ck, with(i, blobs[j]), want, "substitute", fmt.Sprintf("node %d replaced by node %d of the same proof", i, j))
			}
		}
		for j, pb := range pool {
			if j >= 10 {
				break
			}
			h.judge(root, ck, with(i, pb), want, "substitute", fmt.Sprintf("node %d replaced by foreign node %x...", i, pb[:min(8, len(pb))]))
		}
	}
	// extra nodes must be harmless
	if len(pool) > 0 {
		mut := append(append([][]byte{}, blobs...), pool...)
		val, err, _ := h.verify(root, ck, mut)
		h.cnt["proof_mutations"]++
		h.cnt["proof_mutations:add"]++
		if err != nil || !bytes.Equal(val, want) {
			h.fail("extra-proof-nodes-change-result", fmt.Sprintf("proof of %x plus %d unrelated nodes verifies to %x, err %v; stored %x", ck, len(pool), val, err, want))
		}
	}
	// empty proof
	h.judge(root, ck, nil, want, "drop", "all nodes dropped")
}

func min(a, b int) int {
	if a < b {
		return a
	}
	return b
}

// ---- range proofs (fixed-length key universes) ----

func decKey(k []byte) []byte {
	o := cp(k)
	for i := len(o) - 1; i >= 0; i-- {
		o[i]--
		if o[i] != 0xff {
			return o
		}
	}
	return nil // was all zero
}

func incKey(k []byte) []byte {
	o := cp(k)
	for i := len(o) - 1; i >= 0; i-- {
		o[i]++
		if o[i] != 0 {
			return o
		}
	}
	return nil // was all 0xff
}

func (h *hist) rangeProof(s subj, first, last []byte) *memorydb.Database {
	rec := &proofRec{}
	if err := s.prove(first, rec); err != nil {
		h.fail("prove-error", fmt.Sprintf("Prove(%x) failed: %v", first, err))
	}
	if err := s.prove(last, rec); err != nil {
		h.fail("prove-error", fmt.Sprintf("Prove(%x) failed: %v", last, err))
	}
	return caDB(rec.blobs)
}

func (h *hist) checkRanges(b *branch, s subj, root common.Hash) {
	l := h.u.FixedLen
	if l == 0 {
		h.cnt["range_skipped_variable_length"]++
		return
	}
	keys := sortedKeys(b.model)
	sort.Strings(keys)
	n := len(keys)
	all := func(lo, hi int) ([][]byte, [][]byte) { // inclusive
		var ks, vs [][]byte
		for i := lo; i <= hi; i++ {
			ks = append(ks, []byte(keys[i]))
			vs = append(vs, cp(b.model[keys[i]]))
		}
		return ks, vs
	}
	h.rec("range-proofs", 0, nil, nil)
	// whole content without proof
	{
		ks, vs := all(0, n-1)
		more, err := trie.VerifyRangeProof(root, nil, nil, ks, vs, nil)
		h.cnt["range_proofs"]++
		h.cnt["range_proofs_whole"]++
		if err != nil || more {
			h.fail("range-proof-rejected:whole", fmt.Sprintf("the complete sorted content (%d entries) without edge proofs: more=%v err=%v", n, more, err))
		}
		if n > 0 {
			i := h.r.Intn(n)
			vs[i] = append(cp(vs[i]), 1)
			if _, err := trie.VerifyRangeProof(root, nil, nil, ks, vs, nil); err == nil {
				h.fail("tampered-range-accepted:whole-value", fmt.Sprintf("complete content with the value of %x altered verifies", ks[i]))
			}
			h.cnt["range_tampers"]++
		}
	}
	if n == 0 {
		return
	}
	rounds := 3
	if h.cfg.rangeRounds > 0 {
		rounds = h.cfg.rangeRounds
	}
	for round := 0; round < rounds; round++ {
		i := h.r.Intn(n)
		j := i + h.r.Intn(n-i)
		if h.r.Intn(4) == 0 {
			j = i
		}
		if h.r.Intn(5) == 0 {
			i, j = 0, n-1
		}
		first, last := []byte(keys[i]), []byte(keys[j])
		edge := "existing-edges"
		if h.r.Intn(2) == 0 { // non-existent left edge in (keys[i-1], keys[i])
			if d := decKey(first); d != nil && (i == 0 || string(d) > keys[i-1]) {
				first = d
				edge = "absent-left-edge"
				if h.r.Intn(2) == 0 && i == 0 {
					first = make([]byte, l) // the zero key
				}
			}
		}
		if h.r.Intn(2) == 0 && !(i == j && bytes.Equal(first, []byte(keys[i])) && h.r.Intn(2) == 0) {
			if d := incKey(last); d != nil && (j == n-1 || string(d) < keys[j+1]) {
				last = d
				edge += "+absent-right-edge"
			}
		}
		ks, vs := all(i, j)
		proof := h.rangeProof(s, first, last)
		more, err := trie.VerifyRangeProof(root, first, last, ks, vs, proof)
		h.cnt["range_proofs"]++
		h.cnt["range_proofs:"+edge]++
		if i == j {
			h.cnt["range_proofs_single_element"]++
		}
		desc := fmt.Sprintf("entries %d..%d of %d, first=%x last=%x", i, j, n, first, last)
		if err != nil {
			h.fail("range-proof-rejected", fmt.Sprintf("valid range (%s): %v", desc, err))
		}
		if more != (j < n-1) {
			h.fail("range-proof-wrong-continuation", fmt.Sprintf("range (%s) reports more=%v", desc, more))
		}
		// tampering with the data of the range
		bad := func(kind string, ks2, vs2 [][]byte) {
			h.cnt["range_tampers"]++
			h.cnt["range_tampers:"+kind]++
			_, err := trie.VerifyRangeProof(root, first, last, ks2, vs2, proof)
			if err == nil {
				h.trace = append(h.trace, opRec{Op: "range-tamper:" + kind + " " + desc})
				h.fail("tampered-range-accepted:"+kind, fmt.Sprintf("range (%s) with %s verifies without error", desc, kind))
			}
		}
		x := h.r.Intn(len(ks))
		{
			ks2, vs2 := all(i, j)
			vs2[x][h.r.Intn(len(vs2[x]))] ^= byte(1 + h.r.Intn(255))
			bad("value-changed", ks2, vs2)
		}
		{
			ks2, vs2 := all(i, j)
			ks2 = append(ks2[:x], ks2[x+1:]...)
			vs2 = append(vs2[:x], vs2[x+1:]...)
			bad("entry-dropped", ks2, vs2)
		}
		{
			// a fabricated entry between two neighbours (or after the last one, still <= lastKey)
			ks2, vs2 := all(i, j)
			nk := incKey(ks2[x])
			ok := nk != nil && bytes.Compare(nk, last) <= 0 && (x+1 >= len(ks2) || bytes.Compare(nk, ks2[x+1]) < 0)
			if ok {
				ks2 = append(ks2[:x+1], append([][]byte{nk}, ks2[x+1:]...)...)
				vs2 = append(vs2[:x+1], append([][]byte{{0x42}}, vs2[x+1:]...)...)
				bad("entry-added", ks2, vs2)
			}
		}
		if len(ks) >= 2 {
			ks2, vs2 := all(i, j)
			y := (x + 1) % len(ks2)
			if !bytes.Equal(vs2[x], vs2[y]) {
				vs2[x], vs2[y] = vs2[y], vs2[x]
				bad("values-swapped", ks2, vs2)
			}
		}
		{
			ks2, vs2 := all(i, j)
			ks2[x] = cp(ks2[x])
			ks2[x][l-1] ^= byte(1 + h.r.Intn(255))
			if _, exists := b.model[string(ks2[x])]; !exists {
				bad("key-changed", ks2, vs2)
			}
		}
	}
	// nothing to the right: an empty range proven from a key beyond the last entry
	if f := incKey([]byte(keys[n-1])); f != nil {
		proof := h.rangeProof(s, f, f)
		more, err := trie.VerifyRangeProof(root, f, f, nil, nil, proof)
		h.cnt["range_proofs"]++
		h.cnt["range_proofs_empty_tail"]++
		if err != nil || more {
			h.fail("range-proof-rejected:empty-tail", fmt.Sprintf("empty range from %x (beyond the last key): more=%v err=%v", f, more, err))
		}
	}
	// an empty answer although entries follow must be refused
	{
		f := []byte(keys[h.r.Intn(n)])
		if h.r.Intn(2) == 0 {
			if d := decKey(f); d != nil {
				f = d
			}
		}
		proof := h.rangeProof(s, f, f)
		_, err := trie.VerifyRangeProof(root, f, f, nil, nil, proof)
		h.cnt["range_tampers"]++
		h.cnt["range_tampers:claimed-empty"]++
		if err == nil {
			h.fail("tampered-range-accepted:claimed-empty", fmt.Sprintf("empty range from %x accepted although %d entries are not left of it", f, n))
		}
	}
}
