package c08

import (
	"verifharness/core"
)

// Boundary corpus: fixed histories at which a broken journal entry, a shared map
// in Copy, an order dependence in Finalise or a stale snapshot layer shows.
// Every scenario runs under each flavour, once observing after every step and
// once observing only where the scenario says so (cold caches).

func mk(k kind, a, s int, v int64) op { return op{K: k, A: a, S: s, V: v} }

func addBal(a int, v int64) op       { return mk(kAddBalance, a, 0, v) }
func subBal(a int, v int64) op       { return mk(kSubBalance, a, 0, v) }
func setBal(a int, v int64) op       { return mk(kSetBalance, a, 0, v) }
func setNonce(a int, v int64) op     { return mk(kSetNonce, a, 0, v) }
func setCode(a int, ci int64) op     { return mk(kSetCode, a, 0, ci) }
func setState(a, s int, v int64) op  { return mk(kSetState, a, s, v) }
func suicide(a int) op               { return mk(kSuicide, a, 0, 0) }
func create(a int) op                { return mk(kCreateAccount, a, 0, 0) }
func addLog(a int, v int64) op       { return mk(kAddLog, a, 0, v) }
func addRefund(v int64) op           { return mk(kAddRefund, 0, 0, v) }
func subRefund(v int64) op           { return mk(kSubRefund, 0, 0, v) }
func alAddr(a int) op                { return mk(kALAddr, a, 0, 0) }
func alSlot(a, s int) op             { return mk(kALSlot, a, s, 0) }
func transient(a, s int, v int64) op { return mk(kTransient, a, s, v) }
func preimage(i int, v int) op       { return op{K: kPreimage, V: int64(i), X: v} }
func snap() op                       { return op{K: kSnapshot, Obs: obsFull} } // records the getters at snapshot time
func snapQuiet() op                  { return op{K: kSnapshot} }
func revert(j int64) op              { return op{K: kRevert, V: j, Obs: obsFull} }
func revertQuiet(j int64) op         { return op{K: kRevert, V: j} }
func fin(del bool) op                { return op{K: kFinalise, Del: del} }
func iroot(del bool) op              { return op{K: kIntermediateRoot, Del: del} }
func cp() op                         { return op{K: kCopy, X: 5} }
func prepare(tx int64, ti int) op    { return op{K: kPrepare, V: tx, X: ti} }
func read(a int) op                  { return op{K: kRead, A: a, Obs: obsAddr} }
func readAll() op                    { return op{K: kRead, Obs: obsFull} }
func storageTrie(a int) op           { return mk(kStorageTrie, a, 0, 0) }
func on(w int, o op) op              { o.W = w; return o }

// commit variants: cold database, continue through the snapshot tree, flatten to n layers (-1: no), replay variant
func commitX(del, cold, viaTree bool, capLayers, variant int) op {
	x := 0
	if cold {
		x |= 1
	}
	if viaTree {
		x |= 1 << 1
	}
	if capLayers < 0 {
		x |= 1 << 4
	} else {
		x |= capLayers << 6
	}
	x |= variant << 8
	return op{K: kCommit, Del: del, X: x, Obs: obsFull}
}
func commit(del bool) op     { return commitX(del, false, true, -1, 0) }
func commitCold(del bool) op { return commitX(del, true, true, -1, 2) }
func commitFlat(del bool) op { return commitX(del, false, true, 0, 1) }

type scenario struct {
	name string
	ops  []op
}

var corpusList = []scenario{
	{"suicide-revert", []op{setBal(0, 3), setState(0, 0, 1), fin(true), snap(), suicide(0), revert(0), fin(true), readAll(), commit(true)}},
	{"suicide-revert-cold", []op{setBal(0, 3), setState(0, 0, 1), commitCold(true), snapQuiet(), suicide(0), revertQuiet(0), fin(true), readAll(), commit(true)}},
	{"suicide-twice-revert-inner", []op{setBal(0, 3), snap(), suicide(0), snap(), suicide(0), addBal(0, 2), revert(1), readAll(), revert(0), readAll(), fin(true), commit(true)}},
	{"balance-nonce-code-revert", []op{setBal(0, 2), setNonce(0, 1), setCode(0, 1), snap(), addBal(0, 1), subBal(0, 2), setBal(0, 9), setNonce(0, 2), setCode(0, 2), setCode(0, 0), revert(0), fin(true), commit(true)}},
	{"code-revert-over-committed", []op{setCode(0, 1), setNonce(0, 1), commitCold(true), snapQuiet(), setCode(0, 2), revertQuiet(0), read(0), fin(true), commitCold(true), readAll()}},
	{"storage-revert-dirty", []op{setState(0, 0, 1), snap(), setState(0, 0, 2), setState(0, 1, 3), setState(0, 0, 0), revert(0), fin(true), readAll(), commit(true)}},
	{"storage-revert-over-committed", []op{setNonce(0, 1), setState(0, 0, 1), setState(0, 3, 4), commitCold(true), snap(), setState(0, 0, 2), setState(0, 0, 0), setState(0, 3, 0), revert(0), readAll(), fin(true), commit(true)}},
	{"storage-revert-over-committed-cold", []op{setNonce(0, 1), setState(0, 0, 1), setState(0, 3, 4), commitCold(true), snapQuiet(), setState(0, 0, 2), setState(0, 3, 0), revertQuiet(0), fin(true), iroot(true), readAll(), commit(true)}},
	{"storage-same-and-zero", []op{setState(0, 0, 0), readAll(), fin(true), readAll(), setState(0, 0, 1), setNonce(0, 1), fin(true), setState(0, 0, 1), snap(), setState(0, 0, 0), setState(0, 0, 1), revert(0), setState(0, 0, 0), commit(true), setState(0, 0, 0), commit(true)}},
	{"refund-revert", []op{addRefund(4), snap(), addRefund(2), subRefund(1), snap(), subRefund(3), revert(1), readAll(), revert(0), readAll(), fin(true), readAll(), addRefund(1), setNonce(0, 1), fin(true), readAll()}},
	{"log-revert-index", []op{prepare(1, 0), addLog(0, 1), snap(), addLog(1, 2), addLog(1, 3), revert(0), addLog(2, 4), readAll(), fin(true), prepare(2, 1), snap(), addLog(3, 5), revert(0), addLog(3, 6), readAll(), commit(true)}},
	{"accesslist-revert", []op{alAddr(0), snap(), alSlot(0, 1), alSlot(1, 2), alSlot(1, 3), snap(), alSlot(0, 2), alAddr(2), revert(1), readAll(), revert(0), readAll(), alSlot(1, 0), snap(), alSlot(1, 1), revert(0), readAll(), fin(true), readAll()}},
	{"transient-revert", []op{transient(0, 0, 1), snap(), transient(0, 0, 2), transient(1, 1, 3), transient(0, 0, 0), revert(0), readAll(), fin(true), readAll()}},
	{"preimage-revert", []op{preimage(0, 1), snap(), preimage(1, 2), preimage(0, 3), revert(0), readAll(), preimage(1, 4), fin(true), readAll()}},
	{"create-revert", []op{snap(), create(0), setBal(0, 1), setState(0, 0, 1), revert(0), readAll(), fin(true), commit(true)}},
	{"create-over-existing-revert", []op{setBal(0, 2), setNonce(0, 1), setCode(0, 1), setState(0, 0, 1), setState(0, 1, 2), commit(true), snap(), create(0), setState(0, 1, 3), revert(0), readAll(), fin(true), commit(true)}},
	{"create-over-existing-revert-cold", []op{setBal(0, 2), setNonce(0, 1), setState(0, 0, 1), setState(0, 1, 2), commitCold(true), snapQuiet(), create(0), revertQuiet(0), read(0), setState(0, 2, 1), fin(true), iroot(true), commit(true)}},
	{"create-over-existing-commit", []op{setBal(0, 2), setNonce(0, 1), setCode(0, 1), setState(0, 0, 1), setState(0, 1, 2), commit(true), create(0), setState(0, 1, 3), readAll(), commit(true), readAll(), commitFlat(true)}},
	{"create-over-existing-twice-revert-inner", []op{setBal(0, 2), setState(0, 0, 1), commit(true), snap(), create(0), setState(0, 0, 2), snap(), create(0), revert(1), readAll(), fin(true), commit(true)}},
	{"suicide-recreate-same-tx", []op{setBal(0, 1), setState(0, 0, 1), commit(true), suicide(0), create(0), setState(0, 1, 2), readAll(), fin(true), readAll(), commit(true)}},
	{"suicide-recreate-same-tx-revert", []op{setBal(0, 1), setState(0, 0, 1), commit(true), suicide(0), snap(), create(0), setState(0, 1, 2), revert(0), readAll(), fin(true), readAll(), commit(true)}},
	{"suicide-resurrect-next-tx", []op{setBal(0, 1), setState(0, 0, 1), commit(true), suicide(0), fin(true), setBal(0, 1), setState(0, 1, 2), readAll(), commit(true), readAll(), commitFlat(true)}},
	{"suicide-resurrect-next-tx-revert", []op{setBal(0, 1), setState(0, 0, 1), commit(true), suicide(0), fin(true), snap(), setBal(0, 1), setState(0, 1, 2), revert(0), readAll(), fin(true), commit(true)}},
	{"suicide-resurrect-revert-then-resurrect", []op{setBal(0, 1), setState(0, 0, 1), commit(true), suicide(0), fin(true), snap(), addBal(0, 1), revert(0), setState(0, 2, 3), setNonce(0, 1), commit(true), commitFlat(true)}},
	{"storage-after-suicide-vanishes", []op{setBal(0, 1), fin(true), suicide(0), setState(0, 0, 1), addBal(0, 2), readAll(), fin(true), readAll(), commit(true)}},
	{"touch-empty-deleted", []op{create(1), fin(false), commit(false), readAll(), addBal(1, 0), fin(true), readAll(), commit(true)}},
	{"touch-empty-revert-survives", []op{create(1), fin(false), commit(false), snap(), addBal(1, 0), revert(0), fin(true), readAll(), commit(true), readAll()}},
	{"touch-empty-revert-survives-cold", []op{create(1), commitCold(false), snapQuiet(), addBal(1, 0), revertQuiet(0), setNonce(2, 1), fin(true), commitCold(true), readAll()}},
	{"empty-kept-without-delete", []op{addBal(1, 0), setState(2, 0, 0), subBal(3, 0), fin(false), readAll(), iroot(false), commit(false), readAll(), addBal(1, 0), commit(true), readAll(), setNonce(2, 0), commit(true)}},
	{"nested-revert-to-outer", []op{setBal(0, 1), snap(), setState(0, 0, 1), alSlot(0, 0), snap(), suicide(0), addRefund(2), snap(), create(0), addLog(0, 1), transient(0, 0, 1), revert(0), readAll(), fin(true), commit(true)}},
	{"copy-pending-storage", []op{setNonce(0, 1), setState(0, 0, 1), fin(true), cp(), on(0, setState(0, 0, 2)), on(0, fin(true)), readAll(), on(1, setState(0, 1, 3)), on(1, iroot(true)), readAll(), on(0, commit(true)), readAll(), on(1, commit(true)), readAll()}},
	{"copy-after-root", []op{setNonce(0, 1), setState(0, 0, 1), setCode(0, 1), iroot(true), cp(), on(1, setState(0, 0, 2)), on(1, suicide(0)), readAll(), on(1, fin(true)), readAll(), on(0, setCode(0, 2)), readAll(), on(1, commit(true)), on(0, commit(true)), readAll()}},
	{"copy-of-copy", []op{setBal(0, 1), setState(0, 0, 1), fin(true), cp(), on(1, setState(0, 0, 2)), on(1, fin(true)), on(1, cp()), on(2, setState(0, 0, 3)), readAll(), on(2, commit(true)), on(1, commit(true)), on(0, commit(true)), readAll()}},
	{"copy-mid-transaction", []op{setNonce(0, 1), setState(0, 0, 1), commit(true), setState(0, 0, 2), setState(0, 1, 3), alSlot(0, 0), transient(0, 0, 1), addLog(0, 1), addRefund(2), preimage(0, 1), suicide(1), cp(), readAll(), fin(true), commit(true)}},
	{"copy-logs-accesslist-transient", []op{prepare(1, 0), addLog(0, 1), alSlot(0, 0), transient(0, 0, 1), preimage(0, 1), setNonce(0, 1), fin(true), cp(), on(0, addLog(1, 2)), on(0, alSlot(0, 1)), on(0, transient(0, 0, 2)), on(0, preimage(1, 2)), readAll(), on(1, addLog(2, 3)), on(1, alSlot(1, 1)), on(1, transient(1, 1, 3)), readAll()}},
	{"snapshot-layers-destruct-recreate", []op{setBal(0, 1), setState(0, 0, 1), setState(0, 1, 2), commit(true), suicide(0), commit(true), readAll(), setBal(0, 1), setState(0, 1, 3), commit(true), readAll(), commitFlat(true), readAll(), setState(0, 2, 1), commitFlat(true)}},
	{"snapshot-layers-destruct-in-one-block", []op{setBal(0, 1), setState(0, 0, 1), setState(0, 1, 2), commit(true), suicide(0), fin(true), setBal(0, 1), setState(0, 1, 3), iroot(true), suicide(0), fin(true), setNonce(0, 1), setState(0, 2, 1), commit(true), readAll(), commitFlat(true), readAll()}},
	{"snapshot-layers-storage-delete", []op{setNonce(0, 1), setState(0, 0, 1), setState(0, 1, 2), commitFlat(true), setState(0, 0, 0), commit(true), readAll(), setState(0, 1, 0), commitFlat(true), readAll()}},
	{"sibling-commits", []op{setNonce(0, 1), setState(0, 0, 1), commit(true), cp(), on(0, setState(0, 0, 2)), on(1, setState(0, 0, 3)), on(1, setNonce(1, 1)), on(0, commit(true)), on(1, commit(true)), readAll(), on(0, setState(0, 1, 1)), on(0, commitFlat(true)), readAll(), on(1, setState(0, 1, 2)), on(1, commit(true)), readAll()}},
	// w1 keeps reading at the root of the second commit while the canonical chain rewrites the same slot and flattens
	{"reader-across-flatten", []op{setNonce(0, 1), commit(true), setState(0, 0, 2), setState(0, 1, 1), commit(true), cp(), on(0, setState(0, 0, 3)), on(0, setState(0, 1, 0)), on(0, commitFlat(true)), readAll(), on(0, setState(0, 0, 1)), on(0, commitFlat(true)), readAll(), on(1, setState(0, 2, 1)), on(1, commit(true)), readAll()}},
	{"reader-across-partial-flatten", []op{setNonce(0, 1), commit(true), setState(0, 0, 2), commit(true), cp(), on(0, setState(0, 0, 3)), on(0, commit(true)), on(0, setState(0, 0, 1)), on(0, commitX(true, false, true, 1, 0)), readAll(), on(0, setState(0, 0, 2)), on(0, commitX(true, false, true, 2, 0)), readAll(), on(1, read(0))}},
	{"intermediate-roots-between-txs", []op{setBal(0, 1), setState(0, 0, 1), iroot(true), setState(0, 0, 2), setState(1, 0, 1), iroot(true), suicide(0), iroot(true), setState(0, 0, 3), addBal(0, 0), iroot(true), readAll(), commit(true)}},
	{"big-values", []op{setBal(0, 9), addBal(0, 9), setNonce(0, 9), setState(0, 3, 4), setState(0, 2, 5), setState(0, 1, 6), snap(), subBal(0, 9), setState(0, 3, 6), revert(0), commitCold(true), readAll(), commitFlat(true)}},
}

// getter with side effects: StorageTrie() works on a deep copy of the object, but the copy writes
// its pending slots into the StateDB's snapshot storage buffer.
var getterList = []scenario{
	{"storagetrie-then-revert", []op{setNonce(0, 1), setState(0, 0, 1), commit(true), snap(), setState(0, 0, 2), storageTrie(0), revert(0), fin(true), setNonce(1, 1), commit(true), readAll()}},
	{"storagetrie-then-overwrite", []op{setNonce(0, 1), setState(0, 0, 1), commit(true), setState(0, 0, 2), storageTrie(0), setState(0, 0, 1), setNonce(1, 1), commit(true), readAll()}},
}

var corpusFlavours = []flavour{
	{Geth: true},
	{Snaps: true, Geth: true},
	{Snaps: true, Prefetch: true},
}

// corpus case index = (scenario, flavour, dense?)
func corpus(c *core.Case) {
	i := c.I
	sc := corpusList[i/len(corpusFlavours)%len(corpusList)]
	fl := corpusFlavours[i%len(corpusFlavours)]
	for _, dense := range []bool{true, false} {
		ops := append([]op(nil), sc.ops...)
		name := "corpus:" + sc.name
		if dense {
			for j := range ops {
				ops[j].Obs = obsFull
			}
			name += ":dense"
		}
		runHistory(c, name, ops, fl)
	}
	c.Run.Count("corpus_scenarios", 1)
}
