package c08

// The reference model of C08. It is written from the property text and the
// account semantics of the EVM world state, NOT from kai/state: plain maps, a
// full deep copy at every snapshot (there is no journal at all), and a content
// root computed with an independent trie implementation (go-ethereum v1.9.15
// trie/rlp/keccak on a fresh in-memory trie).
//
// Rules (DESIGN.md C08 "Oracle calibration", validated against the real code on
// 164k operations before this monitor was built):
//   - Suicide zeroes the balance and sets the mark; the account still exists
//     until the end of the transaction (Finalise).
//   - CreateAccount over an existing account keeps its balance and clears
//     nonce, code, storage and the self-destruct mark.
//   - Only accounts touched since the last Finalise are deleted (self-destructed,
//     or empty when deleteEmptyObjects) or have their storage promoted to
//     "committed" by it.
//   - A zero-amount AddBalance creates a missing account or touches an empty one.
//   - GetCommittedState answers from the last Finalise, not from the last snapshot.
//   - Refund is reset by Finalise; logs, preimages, access list and transient
//     storage live as long as the StateDB object (this StateDB has no Prepare
//     that resets them) and are gone after a reopen.

import (
	"fmt"
	"math/big"
	"sort"
	"strings"

	gcommon "github.com/ethereum/go-ethereum/common"
	gcrypto "github.com/ethereum/go-ethereum/crypto"
	gmemdb "github.com/ethereum/go-ethereum/ethdb/memorydb"
	grlp "github.com/ethereum/go-ethereum/rlp"
	gtrie "github.com/ethereum/go-ethereum/trie"
)

const (
	nUser     = 4 // addresses the histories operate on
	nAddr     = 5 // + the block counter account (hist.tick)
	clockAddr = 4
	nSlot     = 4
	nTx       = 4 // transaction hashes used for logs (index 0 = the zero hash of a fresh StateDB)
	nPreim    = 3
)

type word [32]byte

type macc struct {
	balance   *big.Int
	nonce     uint64
	code      []byte
	storage   map[int]word // current values (zero values are not stored)
	committed map[int]word // values as of the last Finalise
	suicided  bool
	touched   bool // modified (or touched) since the last Finalise
}

func newAcc() *macc {
	return &macc{balance: new(big.Int), storage: map[int]word{}, committed: map[int]word{}, touched: true}
}

func (a *macc) copy() *macc {
	c := &macc{balance: new(big.Int).Set(a.balance), nonce: a.nonce, code: append([]byte(nil), a.code...),
		storage: make(map[int]word, len(a.storage)), committed: make(map[int]word, len(a.committed)),
		suicided: a.suicided, touched: a.touched}
	for k, v := range a.storage {
		c.storage[k] = v
	}
	for k, v := range a.committed {
		c.committed[k] = v
	}
	return c
}

func (a *macc) empty() bool { return a.nonce == 0 && a.balance.Sign() == 0 && len(a.code) == 0 }

type mlog struct {
	addr    int
	data    byte
	txIndex int
	index   uint
}

type model struct {
	acc       [nAddr]*macc
	refund    uint64
	logs      [nTx][]mlog
	logSize   uint
	thash     int
	txIndex   int
	preimages [nPreim]int // 0 = absent, else value+1
	alAddr    [nAddr]bool
	alSlot    [nAddr][nSlot]bool
	transient [nAddr][nSlot]word
}

func newModel() *model { return &model{} }

func (m *model) copy() *model {
	c := *m // arrays of values are copied
	for i, a := range m.acc {
		if a != nil {
			c.acc[i] = a.copy()
		}
	}
	for i := range m.logs {
		c.logs[i] = append([]mlog(nil), m.logs[i]...)
	}
	return &c
}

func (m *model) getOrNew(a int) *macc {
	if m.acc[a] == nil {
		m.acc[a] = newAcc()
	}
	return m.acc[a]
}

// ---- operations (each returns false when the operation is not applicable and must be skipped) ----

func (m *model) addBalance(a int, amt *big.Int) {
	if amt.Sign() == 0 {
		if x := m.acc[a]; x != nil {
			if x.empty() {
				x.touched = true
			}
		} else {
			m.getOrNew(a)
		}
		return
	}
	x := m.getOrNew(a)
	x.balance = new(big.Int).Add(x.balance, amt)
	x.touched = true
}

func (m *model) canSub(a int, amt *big.Int) bool {
	if x := m.acc[a]; x != nil {
		return x.balance.Cmp(amt) >= 0
	}
	return amt.Sign() == 0
}

func (m *model) subBalance(a int, amt *big.Int) {
	x := m.getOrNew(a) // a zero-amount SubBalance still creates a missing account
	if amt.Sign() == 0 {
		return
	}
	x.balance = new(big.Int).Sub(x.balance, amt)
	x.touched = true
}

func (m *model) setBalance(a int, amt *big.Int) {
	x := m.getOrNew(a)
	x.balance = new(big.Int).Set(amt)
	x.touched = true
}

func (m *model) setNonce(a int, n uint64) {
	x := m.getOrNew(a)
	x.nonce = n
	x.touched = true
}

func (m *model) setCode(a int, code []byte) {
	x := m.getOrNew(a)
	x.code = append([]byte(nil), code...)
	x.touched = true
}

func (m *model) setState(a, k int, v word) {
	x := m.getOrNew(a)
	if x.storage[k] != v {
		if v == (word{}) {
			delete(x.storage, k)
		} else {
			x.storage[k] = v
		}
		x.touched = true
	}
}

func (m *model) suicide(a int) bool {
	x := m.acc[a]
	if x == nil {
		return false
	}
	x.suicided = true
	x.balance = new(big.Int)
	x.touched = true
	return true
}

func (m *model) createAccount(a int) {
	nx := newAcc()
	if x := m.acc[a]; x != nil {
		nx.balance.Set(x.balance)
	}
	m.acc[a] = nx
}

func (m *model) addLog(a int, data byte) {
	m.logs[m.thash] = append(m.logs[m.thash], mlog{a, data, m.txIndex, m.logSize})
	m.logSize++
}

func (m *model) addPreimage(i int, v byte) {
	if m.preimages[i] == 0 {
		m.preimages[i] = int(v) + 1
	}
}

func (m *model) addSlotAL(a, k int) {
	m.alAddr[a] = true
	m.alSlot[a][k] = true
}

// finalise ends the transaction. It returns how many accounts were deleted as
// self-destructed and as empty (for the evidence counters).
func (m *model) finalise(del bool) (destructed, emptied int) {
	for i, x := range m.acc {
		if x == nil || !x.touched {
			continue
		}
		if x.suicided {
			m.acc[i] = nil
			destructed++
			continue
		}
		if del && x.empty() {
			m.acc[i] = nil
			emptied++
			continue
		}
		x.committed = make(map[int]word, len(x.storage))
		for k, v := range x.storage {
			x.committed[k] = v
		}
		x.touched = false
	}
	m.refund = 0
	return
}

// reopened is the model of a StateDB freshly opened at the committed root:
// the account content survives, everything scoped to the StateDB object is gone.
func (m *model) reopened() *model {
	c := newModel()
	for i, a := range m.acc {
		if a != nil {
			c.acc[i] = a.copy()
		}
	}
	return c
}

// ---- observation vector ----

type accObs struct {
	Exist, Empty, Suicided bool
	Balance                string
	Nonce                  uint64
	Code                   string
	CodeHash               word
	CodeSize               int
	State                  [nSlot]word
	Committed              [nSlot]word
	Transient              [nSlot]word
	ALAddr                 bool
	ALSlotAddr             [nSlot]bool // first result of SlotInAccessList
	ALSlot                 [nSlot]bool // second result
}

// obs is comparable with ==.
type obs struct {
	Acc       [nAddr]accObs
	Refund    uint64
	Logs      [nTx]string // GetLogs(txhash) in order
	AllLogs   string      // Logs() as a sorted multiset
	Preimages string
	TxIndex   int
}

var emptyCodeHash = word(gcrypto.Keccak256Hash(nil))

func (m *model) obsAcc(a int) accObs {
	var o accObs
	if x := m.acc[a]; x != nil {
		o.Exist, o.Empty, o.Suicided = true, x.empty(), x.suicided
		o.Balance, o.Nonce = x.balance.String(), x.nonce
		o.Code, o.CodeSize = string(x.code), len(x.code)
		o.CodeHash = word(gcrypto.Keccak256Hash(x.code))
		for k := 0; k < nSlot; k++ {
			o.State[k], o.Committed[k] = x.storage[k], x.committed[k]
		}
	} else {
		o.Empty, o.Balance = true, "0"
	}
	o.Transient = m.transient[a]
	o.ALAddr = m.alAddr[a]
	for k := 0; k < nSlot; k++ {
		o.ALSlotAddr[k] = m.alAddr[a]
		o.ALSlot[k] = m.alSlot[a][k]
	}
	return o
}

func logStr(addr int, data byte, txIndex int, index uint) string {
	return fmt.Sprintf("a%d:%02x:t%d:i%d;", addr, data, txIndex, index)
}

func (m *model) observe() obs {
	var o obs
	for a := 0; a < nAddr; a++ {
		o.Acc[a] = m.obsAcc(a)
	}
	o.Refund, o.TxIndex = m.refund, m.txIndex
	var all []string
	for t := 0; t < nTx; t++ {
		var sb strings.Builder
		for _, l := range m.logs[t] {
			s := logStr(l.addr, l.data, l.txIndex, l.index)
			sb.WriteString(s)
			all = append(all, fmt.Sprintf("tx%d:%s", t, s))
		}
		o.Logs[t] = sb.String()
	}
	sort.Strings(all)
	o.AllLogs = strings.Join(all, "")
	var sb strings.Builder
	for i, v := range m.preimages {
		if v != 0 {
			fmt.Fprintf(&sb, "%d=%02x;", i, v-1)
		}
	}
	o.Preimages = sb.String()
	return o
}

// diff names the first field in which two observations differ ("" when equal).
// only limits the comparison to one address (-1 = everything).
func diff(got, want *obs, only int) (field, detail string) {
	for a := 0; a < nAddr; a++ {
		if only >= 0 && a != only {
			continue
		}
		g, w := &got.Acc[a], &want.Acc[a]
		if *g == *w {
			continue
		}
		d := func(f string, x, y interface{}) (string, string) {
			return f, fmt.Sprintf("address #%d %s: got %v, want %v", a, f, x, y)
		}
		switch {
		case g.Exist != w.Exist:
			return d("exist", g.Exist, w.Exist)
		case g.Empty != w.Empty:
			return d("empty", g.Empty, w.Empty)
		case g.Suicided != w.Suicided:
			return d("suicided", g.Suicided, w.Suicided)
		case g.Balance != w.Balance:
			return d("balance", g.Balance, w.Balance)
		case g.Nonce != w.Nonce:
			return d("nonce", g.Nonce, w.Nonce)
		case g.Code != w.Code:
			return d("code", fmt.Sprintf("%x", g.Code), fmt.Sprintf("%x", w.Code))
		case g.CodeHash != w.CodeHash:
			return d("codehash", fmt.Sprintf("%x", g.CodeHash[:4]), fmt.Sprintf("%x", w.CodeHash[:4]))
		case g.CodeSize != w.CodeSize:
			return d("codesize", g.CodeSize, w.CodeSize)
		}
		for k := 0; k < nSlot; k++ {
			switch {
			case g.State[k] != w.State[k]:
				return d("storage", fmt.Sprintf("slot#%d=%s", k, short(g.State[k])), short(w.State[k]))
			case g.Committed[k] != w.Committed[k]:
				return d("committed-storage", fmt.Sprintf("slot#%d=%s", k, short(g.Committed[k])), short(w.Committed[k]))
			case g.Transient[k] != w.Transient[k]:
				return d("transient", fmt.Sprintf("slot#%d=%s", k, short(g.Transient[k])), short(w.Transient[k]))
			case g.ALSlot[k] != w.ALSlot[k]:
				return d("accesslist-slot", fmt.Sprintf("slot#%d=%v", k, g.ALSlot[k]), w.ALSlot[k])
			case g.ALSlotAddr[k] != w.ALSlotAddr[k]:
				return d("accesslist-address", fmt.Sprintf("(via slot#%d)=%v", k, g.ALSlotAddr[k]), w.ALSlotAddr[k])
			}
		}
		if g.ALAddr != w.ALAddr {
			return d("accesslist-address", g.ALAddr, w.ALAddr)
		}
	}
	if only >= 0 {
		return "", ""
	}
	switch {
	case got.Refund != want.Refund:
		return "refund", fmt.Sprintf("refund: got %d, want %d", got.Refund, want.Refund)
	case got.Logs != want.Logs:
		return "logs", fmt.Sprintf("GetLogs per tx: got %q, want %q", got.Logs, want.Logs)
	case got.AllLogs != want.AllLogs:
		return "logs", fmt.Sprintf("Logs(): got %q, want %q", got.AllLogs, want.AllLogs)
	case got.Preimages != want.Preimages:
		return "preimages", fmt.Sprintf("preimages: got %q, want %q", got.Preimages, want.Preimages)
	case got.TxIndex != want.TxIndex:
		return "txindex", fmt.Sprintf("TxIndex: got %d, want %d", got.TxIndex, want.TxIndex)
	}
	return "", ""
}

func short(w word) string {
	i := 0
	for i < 31 && w[i] == 0 {
		i++
	}
	return fmt.Sprintf("%x", w[i:])
}

// ---- content root, computed with an independent trie ----

type rlpAccount struct {
	Nonce    uint64
	Balance  *big.Int
	Root     gcommon.Hash
	CodeHash []byte
}

func trimLeftZeroes(b []byte) []byte {
	i := 0
	for i < len(b) && b[i] == 0 {
		i++
	}
	return b[i:]
}

func freshTrie() *gtrie.Trie {
	t, err := gtrie.New(gcommon.Hash{}, gtrie.NewDatabase(gmemdb.New()))
	if err != nil {
		panic(err)
	}
	return t
}

// root is the state root the account content must hash to: secure Merkle Patricia
// trie keccak(address) -> rlp(nonce, balance, storageRoot, codeHash), storage trie
// keccak(slot) -> rlp(value without leading zeroes).
func (m *model) root(u *universe) word {
	at := freshTrie()
	for i, x := range m.acc {
		if x == nil {
			continue
		}
		st := freshTrie()
		for k, v := range x.storage {
			if v == (word{}) {
				continue
			}
			enc, _ := grlp.EncodeToBytes(trimLeftZeroes(v[:]))
			st.Update(gcrypto.Keccak256(u.slots[k][:]), enc)
		}
		enc, err := grlp.EncodeToBytes(&rlpAccount{x.nonce, x.balance, st.Hash(), gcrypto.Keccak256(x.code)})
		if err != nil {
			panic(err)
		}
		at.Update(gcrypto.Keccak256(u.addrs[i][:]), enc)
	}
	return word(at.Hash())
}
