// Package c08 decides C08: state changes are atomic — RevertToSnapshot restores
// every observable exactly, a Copy is independent, the committed root depends on
// the content only, and committed state reads back through the trie and through
// the snapshot layers.
//
// The real kai/state.StateDB (with the real trie database, snapshot tree and trie
// prefetcher) is driven by generated histories over 4 addresses x 4 slots and is
// judged by
//
//	(1) an independent map model with full copies at snapshots (model.go),
//	    compared on every getter after the operations,
//	(2) its own getters at snapshot time after each revert,
//	(3) Copy independence in both directions,
//	(4) the replay-of-survivors root (fresh StateDB, only non-reverted operations),
//	    and the root of the content computed with an independent trie,
//	(5) read-back of the committed state through state.New(root, db, snaps) with
//	    and without snapshot layers (diff layers and flattened disk layer),
//	(6) go-ethereum v1.9.15 core/state in lock-step as a third opinion: when it
//	    sides with go-kardia against the model, the case is inconclusive, not a violation.
package c08

import (
	"fmt"
	"os"
	"strings"

	"verifharness/core"
)

func init() { core.Register("C08", Main) }

// shrink deletes steps while the same failure key is still produced.
func shrink(ops []op, fl flavour, key string, budget int) []op {
	same := func(cand []op) bool {
		if budget <= 0 {
			return false
		}
		budget--
		f := exec(cand, fl, nil)
		return f != nil && f.Key == key
	}
	cur := ops
	// cut the tail after the failing step first
	if f := exec(cur, fl, nil); f != nil && f.Key == key && f.Step+1 < len(cur) {
		cur = cur[:f.Step+1]
	}
	chunk := len(cur) / 2
	if chunk < 1 {
		chunk = 1
	}
	for budget > 0 {
		progress := false
		for lo := 0; lo < len(cur) && budget > 0; {
			hi := lo + chunk
			if hi > len(cur) {
				hi = len(cur)
			}
			cand := append(append([]op(nil), cur[:lo]...), cur[hi:]...)
			if len(cand) > 0 && same(cand) {
				cur = cand
				progress = true
			} else {
				lo = hi
			}
		}
		if chunk > 1 {
			chunk /= 2
		} else if !progress {
			break
		}
	}
	return cur
}

func opStrings(ops []op) []string {
	out := make([]string, len(ops))
	for i, o := range ops {
		out[i] = fmt.Sprintf("%3d %s", i, o.String())
	}
	return out
}

// runHistory executes one history, reports and shrinks.
func runHistory(c *core.Case, name string, ops []op, fl flavour) {
	run := c.Run
	st := newStats()
	f := exec(ops, fl, st)
	st.flush(run)
	run.Eval(1)
	if f == nil {
		var sb strings.Builder
		for _, o := range ops {
			sb.WriteByte('a' + byte(o.K))
		}
		if st.c["histories_with_effective_revert"] > 0 || st.c["commits_of_nonempty_state"] > 0 {
			run.Nontrivial(sb.String())
		}
		return
	}
	if f.Inconclusive {
		run.Inconclusive(fmt.Sprintf("case %s:%d step %d [%s]: %s", c.Group, c.I, f.Step, f.Key, f.What))
		return
	}
	small := shrink(ops, fl, f.Key, 600)
	ff := exec(small, fl, nil)
	if ff == nil || ff.Key != f.Key { // flaky under shrinking (map order): keep the original
		small, ff = ops[:f.Step+1], f
	}
	if os.Getenv("C08_DEBUG") != "" {
		fmt.Fprintf(os.Stderr, "FAIL %s [%s] step %d: %s\n  %s\n", f.Key, fl, ff.Step, ff.What, strings.Join(opStrings(small), "\n  "))
	}
	key := f.Key
	if fl.Getters {
		// histories that call the StorageTrie() getter have their own key space (see getterList)
		key = "after-StorageTrie-getter:" + key
	}
	c.Violation(key, ff.What, map[string]interface{}{
		"history":         name,
		"flavour":         fl.String(),
		"failing_step":    ff.Step,
		"steps_minimised": opStrings(small),
		"original_length": len(ops),
		"original_step":   f.Step,
		"addresses":       "#0..#3 = 0x10..a1, 0x20..a2, 0x30..a3, 0x40..a4; slots #0..#3; every selector is taken modulo what is live",
	})
}

func history(c *core.Case) {
	r := c.R
	fl := flavour{Snaps: r.Intn(2) == 0, Geth: r.Intn(4) != 0}
	if fl.Snaps {
		fl.Prefetch = r.Intn(3) == 0
	}
	n := 1 + r.Intn(300)
	switch r.Intn(6) {
	case 0:
		n = 1 + r.Intn(12)
	case 1:
		n = 1 + r.Intn(60)
	}
	ops := generate(r, n, fl)
	if c.I < 2 {
		s := opStrings(ops)
		if len(s) > 25 {
			s = s[:25]
		}
		c.Run.Sample(map[string]interface{}{"case": c.I, "flavour": fl.String(), "steps": len(ops), "prefix": s})
	}
	runHistory(c, fmt.Sprintf("random(%d steps)", n), ops, fl)
}

// raceHistory: snapshot tree + trie prefetcher always on; run in -race children.
func raceHistory(c *core.Case) {
	r := c.R
	fl := flavour{Snaps: true, Prefetch: true, Geth: false}
	ops := generate(r, 20+r.Intn(200), fl)
	runHistory(c, "prefetcher-under-race", ops, fl)
}

func Main() {
	r := core.Start("C08", "exploration")
	r.SetRule("history = 1..300 explicit steps over 4 addresses x 4 slots on the real kai/state.StateDB (setters, Suicide, CreateAccount, logs, refund, access list, transient storage, preimages, nested Snapshot/RevertToSnapshot, Finalise/IntermediateRoot/Commit+reopen with and without snapshot tree, Copy) judged against a journal-free map model, its own getters at snapshot time, replay of survivors and an independent content root; non-trivial = a revert changed at least one observable back, or a non-empty state was committed and read back; distinct by the sequence of operation kinds")
	r.Assume("Copy() in the middle of a transaction is only required to be equal at copy time and independent; it is not continued (the copy has no journal, by the documented contract of Copy)")
	r.Assume("after Commit the StateDB is discarded and the state is reopened with state.New (documented contract of trie.Commit)")
	r.Assume("the transaction context (Prepare: tx hash, tx index) is not state: it is set only at transaction boundaries and a Copy starts with a fresh one")
	r.Assume("address 0x03 (RIPEMD touch exception, deliberately non-atomic) is not used")
	r.Assume("no two commits of a history have the same state root when a snapshot tree is kept (a fifth block-counter account gets a history-wide unique nonce before every Commit): snapshot.Tree is keyed by root and cannot represent a chain that returns to an earlier root or two sibling blocks with one root")
	r.Assume("snapshot layers are flattened by calling Tree.Cap(root, 0..2) (StateDB.Commit itself uses 128) and only along the chain of the first StateDB of the history; forks commit into the tree and are read back through it, but are not capped")
	r.Assume("go-ethereum v1.9.15 core/state runs in lock-step for the operations it has (no access list, no transient storage) with two compensations for defects repaired upstream later (resetObjectChange.dirtied()==nil; balance carried over from an already deleted object); it only arbitrates, it never raises a violation by itself")
	r.Cases("corpus", len(corpusList)*len(corpusFlavours), core.Opts{}, corpus)
	r.Cases("getter-side-effects", len(getterList), core.Opts{}, func(c *core.Case) {
		sc := getterList[c.I%len(getterList)]
		runHistory(c, "corpus:"+sc.name, sc.ops, flavour{Snaps: true, Geth: true, Getters: true})
	})
	procs := core.Opts{Procs: 16, StallSec: 120}
	if r.Quick() {
		r.Cases("history", 8000, procs, history)
	} else {
		// several groups so that no child process lives long (every snapshot tree leaks its fastcache arena)
		for g := 0; g < 10; g++ {
			r.Cases(fmt.Sprintf("history-%d", g), 50000, procs, history)
		}
		r.Cases("prefetch-race", 4000, core.Opts{Procs: 16, Race: true, StallSec: 300, Env: []string{"GORACE=halt_on_error=1"}}, raceHistory)
	}
	r.Floor("snapshot_trees_reloaded_from_journal", 100)
	r.Floor("reverts_that_changed_an_observable", 1000)
	r.Floor("revert_vs_snapshot_time_checks", 1000)
	r.Floor("readback_through_snapshot_layer", 500)
	r.Floor("readback_through_trie", 1000)
	r.Floor("snapshot_layers_flattened", 100)
	r.Floor("replay_of_survivors_checks", 1000)
	r.Floor("copies_at_tx_boundary", 300)
	r.Floor("copies_mid_transaction", 100)
	r.Floor("create_over_existing", 1000)
	r.Floor("recreate_after_suicide_same_tx", 50)
	r.Floor("accounts_deleted_empty", 100)
	r.Floor("accounts_deleted_selfdestructed", 500)
	r.Floor("three_way_comparisons", 1000)
	r.Floor("prefetchers_started", 100)
	r.Floor("cold_reader_checks_across_flatten", 100)
	r.Finish()
}
