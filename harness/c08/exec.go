package c08

import (
	"fmt"
	"os"
	"runtime/debug"
	"sort"
	"strings"

	gcommon "github.com/ethereum/go-ethereum/common"
	grawdb "github.com/ethereum/go-ethereum/core/rawdb"
	gstate "github.com/ethereum/go-ethereum/core/state"
	gtypes "github.com/ethereum/go-ethereum/core/types"

	"github.com/kardiachain/go-kardia/kai/kaidb"
	"github.com/kardiachain/go-kardia/kai/kaidb/memorydb"
	kstate "github.com/kardiachain/go-kardia/kai/state"
	"github.com/kardiachain/go-kardia/kai/state/snapshot"
	kcommon "github.com/kardiachain/go-kardia/lib/common"
	ktypes "github.com/kardiachain/go-kardia/types"

	"verifharness/core"
)

// ---- observation of the real StateDB: every getter ----

func kaddr(a int) kcommon.Address { return kcommon.Address(uni.addrs[a]) }
func kslot(k int) kcommon.Hash    { return kcommon.Hash(uni.slots[k]) }
func gaddr(a int) gcommon.Address { return gcommon.Address(uni.addrs[a]) }
func gslot(k int) gcommon.Hash    { return gcommon.Hash(uni.slots[k]) }

func addrIndex(b [20]byte) int {
	for i := range uni.addrs {
		if uni.addrs[i] == b {
			return i
		}
	}
	return -1
}

func txIndexOf(h [32]byte) int {
	for i := range uni.txs {
		if uni.txs[i] == word(h) {
			return i
		}
	}
	return -1
}

func observeRealAddr(s *kstate.StateDB, a int) accObs {
	var o accObs
	ad := kaddr(a)
	o.Exist, o.Empty, o.Suicided = s.Exist(ad), s.Empty(ad), s.HasSuicided(ad)
	o.Balance, o.Nonce = s.GetBalance(ad).String(), s.GetNonce(ad)
	o.Code, o.CodeSize, o.CodeHash = string(s.GetCode(ad)), s.GetCodeSize(ad), word(s.GetCodeHash(ad))
	for k := 0; k < nSlot; k++ {
		sl := kslot(k)
		o.State[k] = word(s.GetState(ad, sl))
		o.Committed[k] = word(s.GetCommittedState(ad, sl))
		o.Transient[k] = word(s.GetTransientState(ad, sl))
		o.ALSlotAddr[k], o.ALSlot[k] = s.SlotInAccessList(ad, sl)
	}
	o.ALAddr = s.AddressInAccessList(ad)
	return o
}

func observeReal(s *kstate.StateDB) obs {
	var o obs
	for a := 0; a < nAddr; a++ {
		o.Acc[a] = observeRealAddr(s, a)
	}
	o.Refund, o.TxIndex = s.GetRefund(), s.TxIndex()
	for t := 0; t < nTx; t++ {
		var sb strings.Builder
		for _, l := range s.GetLogs(kcommon.Hash(uni.txs[t]), 0, kcommon.Hash{}) {
			sb.WriteString(klogStr(l))
			if word(l.TxHash) != uni.txs[t] {
				sb.WriteString("<wrong TxHash>")
			}
		}
		o.Logs[t] = sb.String()
	}
	var all []string
	for _, l := range s.Logs() {
		all = append(all, fmt.Sprintf("tx%d:%s", txIndexOf(l.TxHash), klogStr(l)))
	}
	sort.Strings(all)
	o.AllLogs = strings.Join(all, "")
	o.Preimages = preimStr(func(h word) ([]byte, bool) { v, ok := s.Preimages()[kcommon.Hash(h)]; return v, ok }, len(s.Preimages()))
	return o
}

func klogStr(l *ktypes.Log) string {
	var d byte
	if len(l.Data) > 0 {
		d = l.Data[0]
	}
	return logStr(addrIndex(l.Address), d, int(l.TxIndex), l.Index)
}

func preimStr(get func(word) ([]byte, bool), total int) string {
	var sb strings.Builder
	n := 0
	for i := range uni.preims {
		if v, ok := get(uni.preims[i]); ok {
			n++
			var b byte
			if len(v) > 0 {
				b = v[0]
			}
			fmt.Fprintf(&sb, "%d=%02x;", i, b)
		}
	}
	if n != total {
		fmt.Fprintf(&sb, "<%d unknown>", total-n)
	}
	return sb.String()
}

// observeGeth: the getters go-ethereum v1.9.15 has; access list and transient
// storage (which it lacks) are taken from the model so that the vectors compare.
func observeGeth(s *gstate.StateDB, m *model) obs {
	var o obs
	for a := 0; a < nAddr; a++ {
		ad := gaddr(a)
		ao := &o.Acc[a]
		ao.Exist, ao.Empty, ao.Suicided = s.Exist(ad), s.Empty(ad), s.HasSuicided(ad)
		ao.Balance, ao.Nonce = s.GetBalance(ad).String(), s.GetNonce(ad)
		ao.Code, ao.CodeSize, ao.CodeHash = string(s.GetCode(ad)), s.GetCodeSize(ad), word(s.GetCodeHash(ad))
		mo := m.obsAcc(a)
		for k := 0; k < nSlot; k++ {
			ao.State[k] = word(s.GetState(ad, gslot(k)))
			ao.Committed[k] = word(s.GetCommittedState(ad, gslot(k)))
		}
		ao.Transient, ao.ALAddr, ao.ALSlot, ao.ALSlotAddr = mo.Transient, mo.ALAddr, mo.ALSlot, mo.ALSlotAddr
	}
	o.Refund, o.TxIndex = s.GetRefund(), s.TxIndex()
	gl := func(l *gtypes.Log) string {
		var d byte
		if len(l.Data) > 0 {
			d = l.Data[0]
		}
		return logStr(addrIndex(l.Address), d, int(l.TxIndex), l.Index)
	}
	for t := 0; t < nTx; t++ {
		var sb strings.Builder
		for _, l := range s.GetLogs(gcommon.Hash(uni.txs[t])) {
			sb.WriteString(gl(l))
		}
		o.Logs[t] = sb.String()
	}
	var all []string
	for _, l := range s.Logs() {
		all = append(all, fmt.Sprintf("tx%d:%s", txIndexOf(l.TxHash), gl(l)))
	}
	sort.Strings(all)
	o.AllLogs = strings.Join(all, "")
	o.Preimages = preimStr(func(h word) ([]byte, bool) { v, ok := s.Preimages()[gcommon.Hash(h)]; return v, ok }, len(s.Preimages()))
	return o
}

// ---- one history ----

type snapRec struct {
	id, gid int
	m       *model
	o       *obs // every getter at snapshot time (nil when the step did not observe)
	surv    int
}

// world is one live StateDB with its shadows.
type world struct {
	real    *kstate.StateDB
	db      kstate.Database
	geth    *gstate.StateDB
	m       *model
	snaps   []snapRec
	surv    []op // surviving (non-reverted) content operations and transaction boundaries since the empty state
	since   int  // journalled steps since the last transaction boundary
	viaSnap bool
	flatAt  int  // hist.flattens when this StateDB (or the one it was copied from) was opened
	dirty   bool // operated on since its last full comparison with the model
}

type failure struct {
	Key, What    string
	Step         int
	Inconclusive bool
}

type stats struct {
	c map[string]int
	d map[string]map[string]struct{}
	m map[string]int64
}

func newStats() *stats {
	return &stats{c: map[string]int{}, d: map[string]map[string]struct{}{}, m: map[string]int64{}}
}
func (s *stats) count(k string, n int) {
	if s != nil {
		s.c[k] += n
	}
}
func (s *stats) max(k string, n int64) {
	if s != nil && n > s.m[k] {
		s.m[k] = n
	}
}
func (s *stats) distinct(set, v string) {
	if s == nil {
		return
	}
	if s.d[set] == nil {
		s.d[set] = map[string]struct{}{}
	}
	s.d[set][v] = struct{}{}
}
func (s *stats) flush(r *core.Run) {
	for k, v := range s.c {
		r.Count(k, v)
	}
	for k, v := range s.m {
		r.Max(k, v)
	}
	for k, m := range s.d {
		for v := range m {
			r.Distinct(k, v)
		}
	}
}

type hist struct {
	fl       flavour
	disk     kaidb.Database
	tree     *snapshot.Tree
	gdb      gstate.Database
	worlds   []*world
	st       *stats
	step     int
	undone   bool // a revert undid at least one journalled step
	clock    int64
	flattens int // Tree.Cap calls that flattened layers so far
}

func (h *hist) fail(key, format string, args ...interface{}) *failure {
	return &failure{Key: key, What: fmt.Sprintf(format, args...), Step: h.step}
}

func (h *hist) open(db kstate.Database, root word, viaTree bool) (*kstate.StateDB, bool, error) {
	var tree *snapshot.Tree
	if viaTree {
		tree = h.tree
	}
	s, err := kstate.New(kcommon.Hash(root), db, tree)
	if err != nil {
		return nil, false, err
	}
	has := tree != nil && tree.Snapshot(kcommon.Hash(root)) != nil
	if has && h.fl.Prefetch {
		s.StartPrefetcher("c08")
		h.st.count("prefetchers_started", 1)
	}
	return s, has, nil
}

var emptyRoot = newModel().root(uni)

func newHist(fl flavour, st *stats) (*hist, *failure) {
	h := &hist{fl: fl, st: st, disk: memorydb.New()}
	db := kstate.NewDatabase(h.disk)
	if fl.Snaps {
		tree, err := snapshot.New(snapshot.Config{CacheSize: 1, AsyncBuild: false}, h.disk, db.TrieDB(), kcommon.Hash(emptyRoot))
		if err != nil || tree == nil {
			return nil, &failure{Key: "harness:snapshot-tree", What: fmt.Sprintf("cannot build the snapshot tree on an empty database: %v", err), Inconclusive: true}
		}
		h.tree = tree
	}
	s, via, err := h.open(db, word{}, fl.Snaps)
	if err != nil {
		return nil, &failure{Key: "harness:open", What: err.Error(), Inconclusive: true}
	}
	if fl.Snaps && !via {
		// the zero root and the empty root are the same state; make sure the tree is actually used
		s.StopPrefetcher()
		if s, via, err = h.open(db, emptyRoot, true); err != nil {
			return nil, &failure{Key: "harness:open", What: err.Error(), Inconclusive: true}
		}
	}
	w := &world{real: s, db: db, m: newModel(), viaSnap: via}
	if fl.Geth {
		h.gdb = gstate.NewDatabase(grawdb.NewMemoryDatabase())
		w.geth, _ = gstate.New(gcommon.Hash{}, h.gdb, nil)
	}
	h.worlds = []*world{w}
	return h, nil
}

func (h *hist) close() {
	for _, w := range h.worlds {
		w.real.StopPrefetcher()
	}
}

// gethKnows: fields go-ethereum v1.9.15 can give a third opinion on.
func gethKnows(field string) bool {
	switch field {
	case "transient", "accesslist-slot", "accesslist-address":
		return false
	}
	return true
}

// judge turns a disagreement between the real StateDB and the model into a
// verdict, asking go-ethereum where it can: if the third implementation sides
// with the real code the model is the suspect and the case is inconclusive.
func (h *hist) judge(w *world, key, field, detail string, only int) *failure {
	f := h.fail(key, "%s", detail)
	if w != nil && w.geth != nil && gethKnows(field) {
		g, want := observeGeth(w.geth, w.m), w.m.observe()
		if gf, gd := diff(&g, &want, only); gf != "" {
			f.Inconclusive = true
			f.Key = "three-way:" + key
			f.What = "model disagrees with go-kardia AND with go-ethereum v1.9.15 (model suspected): go-kardia: " + detail + "; go-ethereum: " + gd
		} else {
			f.What += " (go-ethereum v1.9.15 core/state agrees with the model)"
		}
	}
	return f
}

// check compares getters of world w with its model.
func (h *hist) check(w *world, only int, keyPrefix string) *failure {
	want := w.m.observe()
	var got obs
	if only >= 0 {
		got = want
		got.Acc[only] = observeRealAddr(w.real, only)
		h.st.count("observations_one_address", 1)
	} else {
		got = observeReal(w.real)
		h.st.count("observations_full", 1)
	}
	if got != want {
		field, detail := diff(&got, &want, only)
		if h.acrossFlatten(w, field) {
			return h.judge(w, "snapshot-layer:reader-across-flatten:"+field, field, acrossFlattenWhat+detail, only)
		}
		return h.judge(w, keyPrefix+field, field, detail, only)
	}
	if err := w.real.Error(); err != nil {
		return h.fail("db-error", "StateDB.Error() = %v", err)
	}
	if only < 0 && h.tree != nil && w.viaSnap && w.since == 0 {
		// long-lived reader: the same snapshot layer object, cold caches
		cp := w.real.Copy()
		h.st.count("cold_reader_checks", 1)
		if h.flattens > w.flatAt {
			h.st.count("cold_reader_checks_across_flatten", 1)
		}
		f := h.coldCopy(w, cp, want, "the model")
		cp.StopPrefetcher()
		if f != nil {
			return f
		}
	}
	if w.geth != nil && only < 0 {
		g := observeGeth(w.geth, w.m)
		h.st.count("three_way_comparisons", 1)
		if g != want {
			// go-kardia and the model agree, go-ethereum v1.9.15 is the odd one: not a violation; stop the lock-step
			_, gd := diff(&g, &want, -1)
			h.st.count("geth_alone_disagrees", 1)
			h.st.distinct("geth_alone_disagreements", gd)
			if os.Getenv("C08_DEBUG") != "" {
				fmt.Fprintf(os.Stderr, "GETH-ALONE step %d: %s\n", h.step, gd)
			}
			w.geth = nil
		}
	}
	return nil
}

// acrossFlatten: w is a long-lived reader — it was opened through a snapshot layer
// and layers have been flattened (Tree.Cap) since. Storage mismatches of such a
// StateDB get their own key (see coldCopy).
func (h *hist) acrossFlatten(w *world, field string) bool {
	return h.tree != nil && w.viaSnap && h.flattens > w.flatAt && (field == "storage" || field == "committed-storage")
}

const acrossFlattenWhat = "a StateDB opened through a snapshot layer is still in use after later layers were flattened with Tree.Cap; its layer is not marked stale but no longer answers for its own root: "

// coldCopy: a Copy() taken at a transaction boundary has cold caches and reads
// through the same snapshot layer object as the original. It must answer every
// getter like want. A difference is attributed to the snapshot layers when
// layers were flattened since the original was opened (the StateDB is then a
// long-lived reader of a layer that is no longer in the tree), else to Copy.
func (h *hist) coldCopy(w *world, cp *kstate.StateDB, want obs, wantWhat string) *failure {
	got := observeReal(cp)
	want.TxIndex = 0 // a copy has a fresh transaction context
	if got == want {
		return nil
	}
	field, detail := diff(&got, &want, -1)
	if h.acrossFlatten(w, field) {
		return h.fail("snapshot-layer:reader-across-flatten:"+field, acrossFlattenWhat+"(got = cold copy of it, want = %s) %s", wantWhat, detail)
	}
	return h.fail("copy:differs-at-copy-time:"+field, "Copy() at a transaction boundary differs (got = copy, want = %s): %s", wantWhat, detail)
}

// mutateAll applies one of every setter to every address and slot (used on copies
// to show that nothing is shared).
func mutateAll(s *kstate.StateDB, x int) {
	for a := 0; a < nAddr; a++ {
		ad := kaddr(a)
		s.AddBalance(ad, amountOf(5))
		s.SetNonce(ad, 77)
		s.SetCode(ad, []byte{0x99, byte(a)})
		for k := 0; k < nSlot; k++ {
			s.SetState(ad, kslot(k), kcommon.Hash(valueOf(0x55)))
			s.SetTransientState(ad, kslot(k), kcommon.Hash(valueOf(0x66)))
			s.AddSlotToAccessList(ad, kslot(k))
		}
		s.AddLog(&ktypes.Log{Address: ad, Data: []byte{0x99}})
	}
	s.AddRefund(3)
	for i := range uni.preims {
		s.AddPreimage(kcommon.Hash(uni.preims[i]), []byte{0x99})
	}
	s.Suicide(kaddr(x % nAddr))
	if x&4 != 0 {
		s.CreateAccount(kaddr((x >> 3) % nAddr))
	}
}

// replayRoot applies only the surviving operations to a fresh StateDB on a fresh
// database and returns its root.
func replayRoot(surv []op, variant int) (word, error) {
	db := kstate.NewDatabase(memorydb.New())
	s, err := kstate.New(kcommon.Hash{}, db, nil)
	if err != nil {
		return word{}, err
	}
	for _, o := range surv {
		ad := kaddr(o.A)
		switch o.K {
		case kAddBalance:
			s.AddBalance(ad, amountOf(o.V))
		case kSubBalance:
			s.SubBalance(ad, amountOf(o.V))
		case kSetBalance:
			s.SetBalance(ad, amountOf(o.V))
		case kSetNonce:
			s.SetNonce(ad, nonceOf(o.V))
		case kClock:
			s.SetNonce(ad, uint64(o.V))
		case kSetCode:
			s.SetCode(ad, append([]byte(nil), codes[int(o.V)%len(codes)]...))
		case kSetState:
			s.SetState(ad, kslot(o.S), kcommon.Hash(valueOf(o.V)))
		case kSuicide:
			s.Suicide(ad)
		case kCreateAccount:
			s.CreateAccount(ad)
		case kFinalise, kIntermediateRoot, kCommit:
			switch variant % 3 {
			case 0:
				s.Finalise(o.Del)
			case 1:
				s.IntermediateRoot(o.Del)
			case 2:
				root, err := s.Commit(o.Del)
				if err != nil {
					return word{}, err
				}
				if s, err = kstate.New(root, db, nil); err != nil {
					return word{}, err
				}
			}
		}
	}
	return word(s.IntermediateRoot(false)), nil
}

func (h *hist) checkRoot(w *world, o op, got word, groot *word, what string) *failure {
	want := w.m.root(uni)
	h.st.count("roots_compared_with_content_model", 1)
	h.st.distinct("roots", fmt.Sprintf("%x", want[:8]))
	if got != want {
		f := h.fail("root:"+what+"-differs-from-content", "%s root %x, but the root of the content (independent trie over the model) is %x", what, got[:6], want[:6])
		if groot != nil {
			if *groot == want {
				f.What += " (go-ethereum v1.9.15 core/state agrees with the model)"
			} else {
				f.Inconclusive, f.Key = true, "three-way:"+f.Key
				f.What += fmt.Sprintf("; go-ethereum v1.9.15 gives %x (model suspected)", (*groot)[:6])
			}
		}
		return f
	}
	if groot != nil {
		h.st.count("three_way_roots", 1)
		if *groot != want {
			h.st.count("geth_alone_disagrees", 1)
			h.st.distinct("geth_alone_disagreements", "root")
			w.geth = nil
		}
	}
	variant := o.X >> 8
	rr, err := replayRoot(w.surv, variant)
	h.st.count("replay_of_survivors_checks", 1)
	h.st.count("replayed_operations", len(w.surv))
	if err != nil {
		return h.fail("root:replay-error", "replay of the surviving operations failed: %v", err)
	}
	if rr != got {
		return h.fail("root:replay-of-survivors", "%s root %x, but a fresh StateDB to which only the %d surviving operations were applied (boundaries as %s) has root %x",
			what, got[:6], len(w.surv), []string{"Finalise", "IntermediateRoot", "Commit+reopen"}[variant%3], rr[:6])
	}
	return nil
}

// boundary bookkeeping common to Finalise / IntermediateRoot / Commit
func (h *hist) endTx(w *world, o op) {
	d, e := w.m.finalise(o.Del)
	h.st.count("accounts_deleted_selfdestructed", d)
	h.st.count("accounts_deleted_empty", e)
	w.snaps, w.since = nil, 0
	w.surv = append(w.surv, o)
}

func (h *hist) apply(o op) (fl *failure) {
	w := h.worlds[o.W%len(h.worlds)]
	w.dirty = true
	m, s, g := w.m, w.real, w.geth
	ad, gad := kaddr(o.A), gaddr(o.A)
	skip := func() *failure { h.st.count("skipped_inapplicable", 1); return nil }
	journalled := true
	absent := o.A < nAddr && m.acc[o.A] == nil
	if g != nil {
		// go-ethereum v1.9.15: resetObjectChange.dirtied() returns nil (repaired upstream later), so an
		// object (re-)created over an existing or deleted one is not flushed by Finalise unless something
		// else is journalled for it. After an operation that created the account, a SetNonce with the
		// value the nonce already has changes no content and marks the object dirty.
		defer func() {
			if x := w.m.acc[o.A]; g == w.geth && o.K <= kCreateAccount && x != nil && (absent || o.K == kCreateAccount) {
				g.SetNonce(gad, x.nonce)
			}
		}()
	}
	switch o.K {
	case kAddBalance:
		if x := m.acc[o.A]; x != nil && x.empty() && o.V == 0 {
			h.st.count("touch_of_empty_account", 1)
		}
		m.addBalance(o.A, amountOf(o.V))
		s.AddBalance(ad, amountOf(o.V))
		if g != nil {
			g.AddBalance(gad, amountOf(o.V))
		}
	case kSubBalance:
		if !m.canSub(o.A, amountOf(o.V)) {
			return skip()
		}
		m.subBalance(o.A, amountOf(o.V))
		s.SubBalance(ad, amountOf(o.V))
		if g != nil {
			g.SubBalance(gad, amountOf(o.V))
		}
	case kSetBalance:
		m.setBalance(o.A, amountOf(o.V))
		s.SetBalance(ad, amountOf(o.V))
		if g != nil {
			g.SetBalance(gad, amountOf(o.V))
		}
	case kSetNonce:
		m.setNonce(o.A, nonceOf(o.V))
		s.SetNonce(ad, nonceOf(o.V))
		if g != nil {
			g.SetNonce(gad, nonceOf(o.V))
		}
	case kSetCode:
		code := codes[int(o.V)%len(codes)]
		m.setCode(o.A, code)
		s.SetCode(ad, append([]byte(nil), code...))
		if g != nil {
			g.SetCode(gad, append([]byte(nil), code...))
		}
	case kSetState:
		v := valueOf(o.V)
		if x := m.acc[o.A]; x != nil && x.storage[o.S] == v {
			h.st.count("setstate_same_value", 1)
		}
		m.setState(o.A, o.S, v)
		s.SetState(ad, kslot(o.S), kcommon.Hash(v))
		if g != nil {
			g.SetState(gad, gslot(o.S), gcommon.Hash(v))
		}
	case kSuicide:
		if x := m.acc[o.A]; x != nil && x.suicided {
			h.st.count("suicide_twice", 1)
		}
		want := m.suicide(o.A)
		got := s.Suicide(ad)
		if g != nil {
			g.Suicide(gad)
		}
		if got != want {
			return h.fail("suicide:return-value", "Suicide(#%d) returned %v, the account existence says %v", o.A, got, want)
		}
	case kCreateAccount:
		absent = m.acc[o.A] == nil
		if x := m.acc[o.A]; x != nil {
			h.st.count("create_over_existing", 1)
			if x.suicided {
				h.st.count("recreate_after_suicide_same_tx", 1)
			}
		}
		m.createAccount(o.A)
		s.CreateAccount(ad)
		if g != nil {
			g.CreateAccount(gad)
			if absent {
				// go-ethereum v1.9.15 carries the balance over even from an object already deleted by
				// Finalise (repaired upstream later: "prev != nil && !prev.deleted").
				g.SetBalance(gad, amountOf(0))
			}
		}
	case kAddLog:
		m.addLog(o.A, byte(o.V))
		s.AddLog(&ktypes.Log{Address: ad, Data: []byte{byte(o.V)}})
		if g != nil {
			g.AddLog(&gtypes.Log{Address: gad, Data: []byte{byte(o.V)}})
		}
	case kAddRefund:
		m.refund += uint64(o.V)
		s.AddRefund(uint64(o.V))
		if g != nil {
			g.AddRefund(uint64(o.V))
		}
	case kSubRefund:
		if m.refund < uint64(o.V) {
			return skip()
		}
		m.refund -= uint64(o.V)
		s.SubRefund(uint64(o.V))
		if g != nil {
			g.SubRefund(uint64(o.V))
		}
	case kALAddr:
		m.alAddr[o.A] = true
		s.AddAddressToAccessList(ad)
	case kALSlot:
		m.addSlotAL(o.A, o.S)
		s.AddSlotToAccessList(ad, kslot(o.S))
	case kTransient:
		m.transient[o.A][o.S] = valueOf(o.V)
		s.SetTransientState(ad, kslot(o.S), kcommon.Hash(valueOf(o.V)))
	case kPreimage:
		i := int(o.V) % nPreim
		m.addPreimage(i, byte(o.X))
		s.AddPreimage(kcommon.Hash(uni.preims[i]), []byte{byte(o.X)})
		if g != nil {
			g.AddPreimage(gcommon.Hash(uni.preims[i]), []byte{byte(o.X)})
		}
	case kRead:
		journalled = false
	case kStorageTrie:
		journalled = false
		if _, err := s.StorageTrie(ad); err != nil {
			return h.fail("storagetrie-error", "StorageTrie(#%d): %v", o.A, err)
		}
		h.st.count("storagetrie_calls", 1)
	case kPrepare:
		if w.since > 0 {
			return skip()
		}
		journalled = false
		m.thash, m.txIndex = int(o.V)%nTx, o.X%3
		s.Prepare(kcommon.Hash(uni.txs[m.thash]), kcommon.Hash{}, m.txIndex)
		if g != nil {
			g.Prepare(gcommon.Hash(uni.txs[m.thash]), gcommon.Hash{}, m.txIndex)
		}
	case kSnapshot:
		rec := snapRec{id: s.Snapshot(), m: m.copy(), surv: len(w.surv)}
		if g != nil {
			rec.gid = g.Snapshot()
		}
		if o.Obs == obsFull {
			ob := observeReal(s)
			rec.o = &ob
		}
		w.snaps = append(w.snaps, rec)
		h.st.max("max_snapshot_depth", int64(len(w.snaps)))
	case kRevert:
		if len(w.snaps) == 0 {
			return skip()
		}
		j := int(o.V) % len(w.snaps)
		rec := w.snaps[j]
		s.RevertToSnapshot(rec.id)
		if g != nil {
			g.RevertToSnapshot(rec.gid)
		}
		h.st.count("reverts", 1)
		if j < len(w.snaps)-1 {
			h.st.count("reverts_across_nested_snapshots", 1)
		}
		if want := rec.m.observe(); want != m.observe() {
			h.st.count("reverts_that_changed_an_observable", 1)
			h.undone = true
		}
		w.m, m = rec.m, rec.m
		w.snaps = w.snaps[:j]
		w.surv = w.surv[:rec.surv]
		journalled = false
		if rec.o != nil {
			got := observeReal(s)
			h.st.count("revert_vs_snapshot_time_checks", 1)
			if got != *rec.o {
				field, detail := diff(&got, rec.o, -1)
				return h.fail("revert:"+field, "after RevertToSnapshot a getter differs from its own value when the snapshot was taken: %s", detail)
			}
		}
	case kFinalise:
		s.Finalise(o.Del)
		if g != nil {
			g.Finalise(o.Del)
		}
		h.endTx(w, o)
		journalled = false
	case kIntermediateRoot:
		root := word(s.IntermediateRoot(o.Del))
		var groot *word
		if g != nil {
			gr := word(g.IntermediateRoot(o.Del))
			groot = &gr
		}
		h.endTx(w, o)
		journalled = false
		if f := h.checkRoot(w, o, root, groot, "IntermediateRoot"); f != nil {
			return f
		}
	case kCommit:
		return h.commit(w, o)
	case kCopy:
		if w.since > 0 {
			return h.copyProbe(w, o)
		}
		return h.copyFork(w, o)
	}
	if journalled {
		w.since++
		if o.K.content() {
			w.surv = append(w.surv, o)
		}
	}
	h.st.count("op:"+o.K.String(), 1)
	return nil
}

// tick: with a snapshot tree the harness bumps the nonce of a fifth "block
// counter" account to a history-wide unique value before every Commit, so that no
// two commits of a history produce the same state root. The snapshot tree is keyed
// by root: a chain that returns to an earlier root makes a layer cycle (Tree.Cap
// then recurses until the stack overflows), and two sibling commits with the same
// root leave a child linked to a replaced parent (a later Tree.Cap blocks forever
// in diffToDisk on the consumed generator-abort channel). On a chain neither
// happens (nonces only grow, blocks differ); in a 4-account universe both do.
func (h *hist) tick(w *world) {
	h.clock++
	o := op{K: kClock, A: clockAddr, V: h.clock}
	w.m.setNonce(clockAddr, uint64(h.clock))
	w.real.SetNonce(kaddr(clockAddr), uint64(h.clock))
	if w.geth != nil {
		w.geth.SetNonce(gaddr(clockAddr), uint64(h.clock))
	}
	w.surv = append(w.surv, o)
}

func (h *hist) commit(w *world, o op) *failure {
	if h.tree != nil {
		h.tick(w)
	}
	rootH, err := w.real.Commit(o.Del)
	if err != nil {
		return h.fail("commit-error", "Commit: %v", err)
	}
	root := word(rootH)
	var groot *word
	if w.geth != nil {
		gr, gerr := w.geth.Commit(o.Del)
		if gerr == nil {
			grw := word(gr)
			groot = &grw
			w.geth, _ = gstate.New(gr, h.gdb, nil)
		} else {
			w.geth = nil
		}
	}
	h.endTx(w, o)
	h.st.count("op:Commit", 1)
	if f := h.checkRoot(w, o, root, groot, "Commit"); f != nil {
		return f
	}
	w.m = w.m.reopened()
	want := w.m.observe()
	nonEmpty := false
	for _, a := range w.m.acc {
		if a != nil {
			nonEmpty = true
		}
	}
	if nonEmpty {
		h.st.count("commits_of_nonempty_state", 1)
	}
	// variants
	cold := o.X&1 == 1
	contViaTree := h.tree != nil && (o.X>>1)&7 != 0
	capLayers := -1
	if h.tree != nil && (o.X>>4)&3 == 0 {
		capLayers = (o.X >> 6) & 3 % 3
	}
	db := w.db
	if cold {
		// flush the trie nodes to the key-value store and read through fresh caches
		if err := db.TrieDB().Commit(rootH, false); err != nil {
			return h.fail("triedb-commit-error", "TrieDB().Commit: %v", err)
		}
		if h.tree != nil {
			db = kstate.NewDatabaseWithNodeDB(h.disk, db.TrieDB())
		} else {
			db = kstate.NewDatabase(h.disk)
		}
		h.st.count("reopen_cold_database", 1)
	}
	readBack := func(viaTree bool, label string) *failure {
		s, via, err := h.open(db, root, viaTree)
		if err != nil {
			return h.fail("readback:"+label+":open-error", "state.New(%x) failed after Commit: %v", root[:6], err)
		}
		defer s.StopPrefetcher()
		if viaTree {
			if via {
				h.st.count("readback_through_snapshot_layer", 1)
			} else {
				h.st.count("readback_tree_has_no_layer", 1)
			}
		} else {
			h.st.count("readback_through_trie", 1)
		}
		got := observeReal(s)
		if got != want {
			field, detail := diff(&got, &want, -1)
			return h.judge(w, "readback:"+label+":"+field, field, "reading committed state back ("+label+"): "+detail, -1)
		}
		if err := s.Error(); err != nil {
			return h.fail("readback:"+label+":db-error", "StateDB.Error() = %v", err)
		}
		return nil
	}
	if f := readBack(false, "trie"); f != nil {
		return f
	}
	if h.tree != nil {
		if f := readBack(true, "snapshot"); f != nil {
			return f
		}
		// Layers are flattened only along the chain of the first StateDB of the history (the "canonical
		// chain"): Tree.Cap relinks only the capped chain, a fork hanging off a persisted layer keeps a
		// dangling ancestry and capping along it blocks in diffToDisk. Forks still commit into the tree
		// and are read back through it (stale layers must fall back to the trie).
		if capLayers >= 0 && w == h.worlds[0] && h.tree.Snapshot(rootH) != nil && h.tree.DiskRoot() != rootH {
			if err := h.tree.Cap(rootH, capLayers); err != nil {
				return h.fail("snapshot-cap-error", "Tree.Cap(root, %d): %v", capLayers, err)
			}
			h.st.count("snapshot_layers_flattened", 1)
			h.flattens++
			if f := readBack(true, "snapshot-flattened"); f != nil {
				return f
			}
		}
	}
	// A node shutdown and restart at this block, as far as the snapshot tree is concerned: the diff layers are
	// journalled (Tree.Journal), and a new tree is loaded from the disk layer plus the journal (snapshot.New). The
	// new tree must answer for the root like the old one. Only while the history has no forks (the StateDBs of
	// forks hold layers of the tree that is replaced here).
	if h.tree != nil && w == h.worlds[0] && len(h.worlds) == 1 && (o.X>>8)&3 == 0 && h.tree.Snapshot(rootH) != nil {
		if _, err := h.tree.Journal(rootH); err != nil {
			return h.fail("snapshot-journal-error", "Tree.Journal(root): %v", err)
		}
		tree, err := snapshot.New(snapshot.Config{CacheSize: 1, AsyncBuild: false}, h.disk, db.TrieDB(), rootH)
		if err != nil || tree == nil {
			return h.fail("snapshot-reload-error", "snapshot.New on the journalled tree: %v", err)
		}
		h.tree = tree
		h.flattens++ // (StateDBs opened before hold layers of the old tree: same exemption as after a flatten)
		h.st.count("snapshot_trees_reloaded_from_journal", 1)
		if f := readBack(true, "snapshot-reloaded-from-journal"); f != nil {
			return f
		}
	}
	s, via, err := h.open(db, root, contViaTree)
	if err != nil {
		return h.fail("reopen-error", "state.New(%x) failed after Commit: %v", root[:6], err)
	}
	w.real, w.db, w.viaSnap, w.flatAt = s, db, via, h.flattens
	return nil
}

// copyFork: Copy() at a transaction boundary; both StateDBs continue.
func (h *hist) copyFork(w *world, o op) *failure {
	cp := w.real.Copy()
	nw := &world{real: cp, db: w.db, m: w.m.copy(), surv: append([]op(nil), w.surv...), viaSnap: w.viaSnap, flatAt: w.flatAt, dirty: true}
	nw.m.thash, nw.m.txIndex = 0, 0 // a copy starts with a fresh transaction context (not part of the state)
	if w.geth != nil {
		nw.geth = w.geth.Copy()
	}
	h.st.count("copies_at_tx_boundary", 1)
	if len(h.worlds) < 3 {
		h.worlds = append(h.worlds, nw)
	} else {
		i := 1 + o.X%2
		if h.worlds[i] == w { // never replace the StateDB being copied
			i = 3 - i
		}
		h.worlds[i].real.StopPrefetcher()
		h.worlds[i] = nw
	}
	// the copy must answer every getter like the original does right now (whatever the model thinks)
	return h.coldCopy(w, cp, observeReal(w.real), "the original's own getters")
}

// copyProbe: Copy() in the middle of a transaction. The copy cannot revert and
// has lost the journal's dirty set, so it is not continued; it is only checked
// for equality at copy time and for independence in both directions.
func (h *hist) copyProbe(w *world, o op) *failure {
	h.st.count("copies_mid_transaction", 1)
	cp := w.real.Copy()
	defer cp.StopPrefetcher()
	got, want := observeReal(cp), observeReal(w.real) // want: the original's own getters, whatever the model thinks
	wantCp := want
	wantCp.TxIndex = 0
	if got != wantCp {
		field, detail := diff(&got, &wantCp, -1)
		if h.acrossFlatten(w, field) {
			return h.fail("snapshot-layer:reader-across-flatten:"+field, acrossFlattenWhat+"(got = cold copy of it, want = its own getters) %s", detail)
		}
		return h.fail("copy:differs-at-copy-time:"+field, "Copy() in mid-transaction differs from the original (got = copy, want = original): %s", detail)
	}
	mutateAll(cp, o.X)
	got = observeReal(w.real)
	if got != want {
		field, detail := diff(&got, &want, -1)
		return h.fail("copy:original-changed-by-copy:"+field, "mutating a Copy() changed the original: %s", detail)
	}
	cp2 := w.real.Copy()
	defer cp2.StopPrefetcher()
	id := w.real.Snapshot()
	mutateAll(w.real, o.X)
	got = observeReal(cp2)
	if got != wantCp {
		field, detail := diff(&got, &wantCp, -1)
		return h.fail("copy:copy-changed-by-original:"+field, "mutating the original changed its Copy(): %s", detail)
	}
	w.real.RevertToSnapshot(id)
	got = observeReal(w.real)
	if got != want {
		field, detail := diff(&got, &want, -1)
		return h.fail("revert:"+field, "after mutating every field under a snapshot and reverting: %s", detail)
	}
	return nil
}

// exec runs a history and returns its first failure.
func exec(ops []op, fl flavour, st *stats) (f *failure) {
	h, f := newHist(fl, st)
	if f != nil {
		return f
	}
	defer h.close()
	defer func() {
		if e := recover(); e != nil {
			stk := string(debug.Stack())
			f = &failure{Key: "panic:" + core.PanicKey(stk), What: fmt.Sprintf("panic: %v\n%s", e, firstLines(stk, 30)), Step: h.step}
		}
	}()
	for i, o := range ops {
		h.step = i
		if f := h.apply(o); f != nil {
			return f
		}
		w := h.worlds[o.W%len(h.worlds)]
		switch o.Obs {
		case obsFull:
			for _, x := range h.worlds {
				// a StateDB that was not operated on since it last agreed with its model can only
				// have been changed through another one
				prefix := "model:"
				if x != w && !x.dirty {
					prefix = "copy:other-statedb-changed:"
				}
				if f := h.check(x, -1, prefix); f != nil {
					if prefix == "model:" {
						if x == w {
							f.Key = strings.Replace(f.Key, "model:", "model:after-"+o.K.String()+":", 1)
						} else {
							f.Key = strings.Replace(f.Key, "model:", "model:seen-later:", 1)
						}
					}
					return f
				}
				x.dirty = false
			}
		case obsAddr:
			if f := h.check(w, o.A, "model:after-"+o.K.String()+":"); f != nil {
				return f
			}
		}
	}
	st.count("histories", 1)
	st.count("steps", len(ops))
	if h.undone {
		st.count("histories_with_effective_revert", 1)
	}
	return nil
}

func firstLines(s string, n int) string {
	l := strings.Split(s, "\n")
	if len(l) > n {
		l = l[:n]
	}
	return strings.Join(l, "\n")
}
