package c08

import (
	"fmt"
	"math/big"
	"math/rand"
)

// universe: the small address/slot/value sets the histories are drawn from
// (collisions are the point).
type universe struct {
	addrs  [nAddr][20]byte
	slots  [nSlot]word
	txs    [nTx]word
	preims [nPreim]word
}

var uni = func() *universe {
	u := &universe{}
	for i := 0; i < nAddr; i++ {
		u.addrs[i][19] = byte(0xa1 + i) // #0..#3 are used by the histories, #4 is the block counter; not 0x03 (the RIPEMD touch exception is deliberately non-atomic)
		u.addrs[i][0] = byte(0x10 * (i + 1))
	}
	for i := 0; i < nSlot; i++ {
		u.slots[i][31] = byte(i + 1)
	}
	u.slots[nSlot-1][0] = 0xfe // one slot key with a high first byte
	for i := 1; i < nTx; i++ { // txs[0] stays the zero hash: the context of a fresh StateDB
		u.txs[i][0], u.txs[i][31] = 0x77, byte(i)
	}
	for i := 0; i < nPreim; i++ {
		u.preims[i][0], u.preims[i][31] = 0xee, byte(i)
	}
	return u
}()

// value classes for storage / transient storage
func valueOf(v int64) word {
	var w word
	switch v {
	case 0:
	case 1, 2, 3:
		w[31] = byte(v)
	case 4:
		for i := range w {
			w[i] = 0xff
		}
	case 5:
		w[0] = 0x01 // 2^248: nothing to trim
	case 6:
		w[30], w[31] = 0x01, 0x00 // 256: a trailing zero byte
	default:
		w[31] = byte(v)
	}
	return w
}

var bigAmount, _ = new(big.Int).SetString("1000000000000000000000000000000", 10)

func amountOf(v int64) *big.Int {
	if v == 9 {
		return new(big.Int).Set(bigAmount)
	}
	return big.NewInt(v)
}

func nonceOf(v int64) uint64 {
	if v == 9 {
		return 1 << 63
	}
	return uint64(v)
}

var codes = [][]byte{{}, {0x60, 0x01}, {0x60, 0x02, 0x00}, {0xfe}}

type kind uint8

const (
	kAddBalance kind = iota
	kSubBalance
	kSetBalance
	kSetNonce
	kSetCode
	kSetState
	kSuicide
	kCreateAccount
	kAddLog
	kAddRefund
	kSubRefund
	kALAddr
	kALSlot
	kTransient
	kPreimage
	kSnapshot
	kRevert
	kFinalise
	kIntermediateRoot
	kCommit
	kCopy
	kPrepare
	kRead
	kStorageTrie
	kClock // harness-made: SetNonce on the block counter account (see hist.tick)
	nKinds
)

var kindNames = [...]string{"AddBalance", "SubBalance", "SetBalance", "SetNonce", "SetCode", "SetState", "Suicide", "CreateAccount",
	"AddLog", "AddRefund", "SubRefund", "AddAddressToAccessList", "AddSlotToAccessList", "SetTransientState", "AddPreimage",
	"Snapshot", "RevertToSnapshot", "Finalise", "IntermediateRoot", "Commit", "Copy", "Prepare", "Read", "StorageTrie", "BlockCounterTick"}

func (k kind) String() string { return kindNames[k] }

// content operations change account content (they are what the replay-of-survivors oracle re-applies)
func (k kind) content() bool { return k <= kCreateAccount || k == kClock }
func (k kind) boundary() bool {
	return k == kFinalise || k == kIntermediateRoot || k == kCommit
}

const (
	obsNone = 0
	obsFull = 1 // compare every getter of every live StateDB with its model after the operation
	obsAddr = 2 // only the getters of address A of the StateDB operated on
)

// op is one fully explicit step of a history. Every selector is reduced modulo
// what is live when the step executes, and a step that is not applicable then
// (SubBalance above the balance, SubRefund above the counter, Revert without a
// live snapshot) is skipped, so every sub-sequence of a history is a history:
// witnesses can be shrunk by deleting steps.
type op struct {
	K   kind
	W   int   // which live StateDB (original, copies)
	A   int   // address
	S   int   // slot
	V   int64 // amount / nonce / code / value class / snapshot selector / tx selector
	Del bool  // deleteEmptyObjects
	X   int   // variant selector (reopen through snapshot tree or not, flatten layers, cold database, ...)
	Obs int
}

func (o op) String() string {
	s := ""
	switch o.K {
	case kAddBalance, kSubBalance, kSetBalance:
		s = fmt.Sprintf("%s(#%d, %v)", o.K, o.A, amountOf(o.V))
	case kSetNonce:
		s = fmt.Sprintf("SetNonce(#%d, %d)", o.A, nonceOf(o.V))
	case kSetCode:
		s = fmt.Sprintf("SetCode(#%d, %x)", o.A, codes[int(o.V)%len(codes)])
	case kSetState, kTransient:
		s = fmt.Sprintf("%s(#%d, slot#%d, %s)", o.K, o.A, o.S, short(valueOf(o.V)))
	case kSuicide, kCreateAccount, kALAddr, kRead, kStorageTrie:
		s = fmt.Sprintf("%s(#%d)", o.K, o.A)
	case kAddLog:
		s = fmt.Sprintf("AddLog(#%d, %02x)", o.A, byte(o.V))
	case kAddRefund, kSubRefund:
		s = fmt.Sprintf("%s(%d)", o.K, o.V)
	case kALSlot:
		s = fmt.Sprintf("AddSlotToAccessList(#%d, slot#%d)", o.A, o.S)
	case kPreimage:
		s = fmt.Sprintf("AddPreimage(h%d, %02x)", int(o.V)%nPreim, byte(o.X))
	case kClock:
		s = fmt.Sprintf("SetNonce(#%d, %d) [block counter]", o.A, o.V)
	case kSnapshot:
		s = "Snapshot()"
	case kRevert:
		s = fmt.Sprintf("RevertToSnapshot(live[%d mod n])", o.V)
	case kFinalise, kIntermediateRoot:
		s = fmt.Sprintf("%s(%v)", o.K, o.Del)
	case kCommit:
		s = fmt.Sprintf("Commit(%v)+reopen[variant %d]", o.Del, o.X)
	case kCopy:
		s = fmt.Sprintf("Copy()[variant %d]", o.X)
	case kPrepare:
		s = fmt.Sprintf("Prepare(tx%d, index %d)", int(o.V)%nTx, o.X%3)
	}
	if o.W != 0 {
		s = fmt.Sprintf("[db %d mod n] ", o.W) + s
	}
	switch o.Obs {
	case obsFull:
		s += " ; observe all"
	case obsAddr:
		s += fmt.Sprintf(" ; observe #%d", o.A)
	}
	return s
}

// flavour of one history
type flavour struct {
	Snaps    bool // keep a snapshot tree and open through it
	Prefetch bool // start the trie prefetcher on every StateDB opened through a snapshot layer
	Geth     bool // run go-ethereum v1.9.15 core/state in lock-step as the third opinion
	Getters  bool // allow StorageTrie() as an operation (getter with internal side effects)
}

func (f flavour) String() string {
	return fmt.Sprintf("snaps=%v prefetch=%v geth=%v storagetrie=%v", f.Snaps, f.Prefetch, f.Geth, f.Getters)
}

// generate draws a history of n steps. All randomness of a case is consumed here.
func generate(r *rand.Rand, n int, fl flavour) []op {
	// per-history temperament
	density := []float64{1, 1, 0.25, 0.05}[r.Intn(4)]
	pBoundary := []int{2, 5, 12}[r.Intn(3)] // weight of Finalise/IntermediateRoot/Commit
	pSnap := []int{4, 10, 18}[r.Intn(3)]
	delBias := r.Intn(3) // 0: mostly true, 1: mixed, 2: mostly false
	var ops []op
	obsFlag := func(p float64) int {
		if r.Float64() < p {
			return obsFull
		}
		if r.Intn(8) == 0 {
			return obsAddr
		}
		return obsNone
	}
	del := func() bool {
		switch delBias {
		case 0:
			return r.Intn(10) != 0
		case 1:
			return r.Intn(2) == 0
		}
		return r.Intn(10) == 0
	}
	world := func() int {
		if r.Intn(10) < 7 {
			return 0
		}
		return r.Intn(3)
	}
	amount := func() int64 {
		if r.Intn(25) == 0 {
			return 9
		}
		return int64(r.Intn(4))
	}
	for len(ops) < n {
		o := op{W: world(), A: r.Intn(nUser), S: r.Intn(nSlot), X: r.Intn(1 << 16), Obs: obsFlag(density)}
		total := 100 + pBoundary*3 + pSnap*2
		x := r.Intn(total)
		switch {
		case x < 8:
			o.K, o.V = kAddBalance, amount()
		case x < 13:
			o.K, o.V = kSubBalance, int64(r.Intn(3))
		case x < 17:
			o.K, o.V = kSetBalance, amount()
		case x < 24:
			o.K, o.V = kSetNonce, int64(r.Intn(3))
			if r.Intn(30) == 0 {
				o.V = 9
			}
		case x < 31:
			o.K, o.V = kSetCode, int64(r.Intn(len(codes)))
		case x < 51:
			o.K, o.V = kSetState, int64(r.Intn(4))
			if r.Intn(8) == 0 {
				o.V = int64(4 + r.Intn(3))
			}
		case x < 58:
			o.K = kSuicide
		case x < 65:
			o.K = kCreateAccount
		case x < 69:
			o.K, o.V = kAddLog, int64(r.Intn(256))
		case x < 73:
			o.K, o.V = kAddRefund, int64(r.Intn(5))
		case x < 76:
			o.K, o.V = kSubRefund, int64(1+r.Intn(3))
		case x < 79:
			o.K = kALAddr
		case x < 83:
			o.K = kALSlot
		case x < 88:
			o.K, o.V = kTransient, int64(r.Intn(4))
		case x < 90:
			o.K, o.V = kPreimage, int64(r.Intn(nPreim))
		case x < 93:
			o.K = kRead
			o.Obs = obsAddr
		case x < 96:
			o.K = kCopy
			if r.Intn(3) != 0 { // mostly at a transaction boundary
				b := op{K: kFinalise, W: o.W, Del: del(), Obs: obsNone}
				if r.Intn(3) == 0 {
					b.K = kIntermediateRoot
				}
				ops = append(ops, b)
			}
		case x < 98:
			o.K, o.V = kPrepare, int64(r.Intn(nTx))
		case x < 100:
			if fl.Getters {
				o.K = kStorageTrie
			} else {
				o.K = kRead
				o.Obs = obsAddr
			}
		case x < 100+pBoundary:
			o.K, o.Del = kFinalise, del()
		case x < 100+pBoundary*2:
			o.K, o.Del = kIntermediateRoot, del()
		case x < 100+pBoundary*3:
			o.K, o.Del = kCommit, del()
		case x < 100+pBoundary*3+pSnap:
			o.K = kSnapshot
		default:
			o.K, o.V = kRevert, int64(r.Intn(8))
			if o.Obs != obsFull && r.Intn(10) < 7 {
				o.Obs = obsFull
			}
		}
		ops = append(ops, o)
	}
	// every history ends with a full observation, a commit and the read-back checks
	ops = append(ops, op{K: kRead, A: r.Intn(nUser), Obs: obsFull}, op{K: kCommit, Del: del(), X: r.Intn(1 << 16), Obs: obsFull})
	return ops
}
