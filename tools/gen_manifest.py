#!/usr/bin/env python3
"""Generates /verif/MANIFEST.json from the table below (kept in one place so the
manifest is always valid and in step with what ./check implements)."""
import json, subprocess, os
ROOT = os.path.dirname(os.path.dirname(os.path.abspath(__file__)))
hooks = subprocess.check_output(['git', '-C', '/repo', 'log', '--format=%H', '--grep=^verif hook']).decode().split()[::-1]

# property -> (category, technique, level text, level note, design ref)
CHECKS = {
 'C12': ('exploration', 'runtime monitor: step-by-step comparison of the live ValidatorSet with an executable big.Int transcription of the specification over generated validator-set histories',
         'Every IncrementProposerPriority / UpdateWithChangeSet / Copy of generated histories (thousands of sets, powers 1..cap/8, valid and invalid change sets in every order) is executed on the real ValidatorSet and compared field by field (order, power, priority, proposer, total) with an independent specification transcription; validity, atomicity, order independence, window, starvation and fairness are asserted on what was observed. Group cstate compares the current/next sets of the nodes of a real simulated network (scripted power changes at consecutive heights) with the specification after every block; group rounds runs one real consensus state against scripted validators and compares the proposer it expects in every round it enters - walking through the rounds or jumping on +2/3 votes of a later round - with the specification advanced from the round-1 set. Held-on-observed, not a proof.',
         'Trusted: the spec transcription in harness/c12 (written from the property text), Go toolchain.', 'DESIGN.md 4 C12'),
}
NOT_YET = {}
props = [json.loads(l) for l in open(os.path.join(ROOT, 'properties.jsonl'))]
extra_path = os.path.join(ROOT, 'tools', 'manifest_checks.json')
if os.path.exists(extra_path):
    for k, v in json.load(open(extra_path)).items():
        CHECKS[k] = tuple(v)
na_path = os.path.join(ROOT, 'tools', 'manifest_na.json')
NA = json.load(open(na_path)) if os.path.exists(na_path) else {}
checks, na = [], []
for p in props:
    i = p['id']
    if i in CHECKS:
        cat, tech, text, note, ref = CHECKS[i]
        checks.append({
            'property_id': i,
            'quick_cmd': './check %s quick' % i,
            'thorough_cmd': './check %s thorough' % i,
            'evidence_file': 'evidence/%s.json' % i,
            'replay_cmd_template': './check --replay {path}',
            'engine': 'vcheck',
            'level_claimed': {'category': cat, 'text': text, 'design_ref': ref},
            'level_note': note,
            'technique': tech,
        })
    else:
        na.append({'property_id': i, 'reason': NA.get(i, 'check not built yet in this session (work in progress); the design in DESIGN.md section 4 applies')})
m = {
 'version': 1,
 'setup_cmd': 'tools/setup.sh',
 'hooks': {
   'guard': 'verif',
   'enable': 'go build -tags verif (Go build tag; ./check builds harness/cmd/vcheck with -tags verif against /repo through a replace directive)',
   'baseline_off_cmd': 'tools/baseline_off.sh',
   'source_commits': hooks,
   'add_only': True,
 },
 'engines': [
   {'name': 'vcheck', 'path': 'harness/cmd/vcheck', 'serves_properties': sorted(CHECKS), 'kind_free_text': 'Go binary built from /repo working tree with -tags verif: generated workloads drive the real packages, runtime monitors (reference models, trace checkers, differential oracles, race detector) decide; child processes per batch for crash isolation'},
 ],
 'checks': checks,
 'not_applicable': na,
 'notes': 'Technique family: runtime monitoring and sanitizers. Every verdict means "held on the executions described in the evidence file". Known findings: known_findings.jsonl. See DESIGN.md.',
}
json.dump(m, open(os.path.join(ROOT, 'MANIFEST.json'), 'w'), indent=1)
print('checks:', [c['property_id'] for c in checks], 'not_applicable:', len(na))
