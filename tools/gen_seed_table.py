#!/usr/bin/env python3
# Prints the markdown table of /verif/seeded/*/meta.json (DESIGN.md 7.7 is generated from it).
import json,glob,os
rows=[]
for f in sorted(glob.glob('/verif/seeded/*/meta.json')):
    d=json.load(open(f))
    def cell(s): return s.replace('|','/').replace('\n',' ')
    rows.append("| `%s` | %s | %s | %s |"%(d['id'],d['breaks_property'],cell(d['needs_to_manifest']),cell(d['what_was_run'])))
print("| seeded change (`/verif/seeded/<id>/`) | property | needs, to manifest | result |")
print("|---|---|---|---|")
print("\n".join(rows))
