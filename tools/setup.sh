#!/bin/bash
# Run once after a fresh restore, offline: builds the harness binary from files on disk.
export GOFLAGS=-mod=mod GOPROXY=off GOSUMDB=off GOTOOLCHAIN=local
cd /verif || exit 1
tools/gen_gomod.sh || exit 1
mkdir -p bin evidence replays
( cd harness && go build -tags verif -o ../bin/vcheck ./cmd/vcheck ) || exit 1
( cd harness && go build -race -tags verif -o ../bin/vcheck-race ./cmd/vcheck ) || exit 1
echo setup ok
