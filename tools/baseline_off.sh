#!/bin/bash
# Runs the repository's stable baseline with the verif guard OFF and compares the
# result with /root/.vp/BASELINE.json (stable_pass). Exit 0 iff every stable test passed.
export GOFLAGS=-mod=mod GOPROXY=off GOSUMDB=off GOTOOLCHAIN=local
out=$(mktemp /var/tmp/verif-baseline.XXXXXX.json)
trap 'rm -f "$out"' EXIT
(cd /repo && go test -mod=mod -json -vet=off -count=1 -timeout 25m ./... > "$out" 2>/dev/null)
python3 - "$out" <<'PY'
import json,sys
res={}
for l in open(sys.argv[1],errors='replace'):
    try: e=json.loads(l)
    except Exception: continue
    if e.get('Test') and e.get('Action') in('pass','fail','skip'):
        res[e['Package']+'::'+e['Test']]=e['Action']
base=json.load(open('/root/.vp/BASELINE.json'))['stable_pass']
bad=[t for t in base if res.get(t)!='pass']
print("baseline stable tests: %d, passed now: %d"%(len(base),len(base)-len(bad)))
for t in bad: print("NOT-PASSING",t,res.get(t))
sys.exit(1 if bad else 0)
PY
