#!/bin/bash
# tools/seedcheck.sh <seed-dir> <demo-target-dir-relative> <demo-run-regex> <Cxx> [<Cyy> ...]
# seed-dir holds patch.diff and zz_seed_demo_test.go. Confirms the demonstration in a scratch worktree
# (fails with the patch, passes without) and then runs the named checks (quick) against the patched
# sources through a build overlay (same binary as `git -C /repo apply` would give; /repo is not touched
# because other jobs build from it concurrently). Prints one summary line per step.
export GOFLAGS=-mod=mod GOPROXY=off GOSUMDB=off GOTOOLCHAIN=local
sd=$(readlink -f "$1"); tgt="$2"; rx="$3"; shift 3
wt=/tmp/evalwt-$$
git -C /repo worktree add -q --detach $wt HEAD || exit 3
trap 'git -C /repo worktree remove --force '$wt' 2>/dev/null; rm -rf /var/tmp/seedmut-'$$ EXIT
cd $wt
demo=$(ls $sd/*_test.go 2>/dev/null | head -1)
if [ -n "$demo" ] && [ -n "$tgt" ]; then
  cp $demo $tgt/zz_seed_demo_test.go
  if go test -count=1 -run "$rx" ./$tgt/ > /tmp/seedcheck.$$.a 2>&1; then echo "DEMO unchanged tree: PASS"; else echo "DEMO unchanged tree: FAIL (unexpected)"; tail -5 /tmp/seedcheck.$$.a; fi
fi
git apply $sd/patch.diff || { echo "PATCH does not apply"; exit 3; }
files=$(git diff --name-only | grep -v zz_seed_demo)
go build $(for f in $files; do echo ./$(dirname $f)/; done | sort -u) || { echo "PATCH does not build"; exit 3; }
if [ -n "$demo" ] && [ -n "$tgt" ]; then
  if go test -count=1 -run "$rx" ./$tgt/ > /tmp/seedcheck.$$.b 2>&1; then echo "DEMO with patch: PASS (unexpected)"; else echo "DEMO with patch: FAIL (as claimed)"; fi
fi
mkdir -p /var/tmp/seedmut-$$; mut=""
for f in $files; do cp $f /var/tmp/seedmut-$$/$(echo $f | tr / _); mut="$mut --mut $f /var/tmp/seedmut-$$/$(echo $f | tr / _)"; done
cd /verif
for p in "$@"; do
  out=$(tools/dev.sh $p quick $mut 2>&1)
  if echo "$out" | grep -q "^VIOLATION"; then echo "CHECK $p: CAUGHT  $(echo "$out" | grep -a '^  key=' | head -2 | cut -c1-230 | tr '\n' ' ')"; else echo "CHECK $p: missed   $(echo "$out" | grep -a 'quick seed\|BUILD\|INCONC' | head -2 | cut -c1-160)"; fi
done
rm -f /tmp/seedcheck.$$.*
