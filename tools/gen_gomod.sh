#!/bin/bash
# Regenerates harness/go.mod and go.sum from /repo's current go.mod/go.sum.
set -e
H=/verif/harness
mkdir -p /verif/bin
exec 8>/verif/bin/.gomodlock
flock 8
{
  echo "module verifharness"; echo; echo "go 1.18"; echo
  echo "require github.com/kardiachain/go-kardia v0.0.0"
  echo "require github.com/anishathalye/porcupine v1.3.0"
  echo
  echo "replace github.com/kardiachain/go-kardia => /repo"
  echo
  # copy every require block / line and replace directives of the repo
  awk '/^require \(/{p=1} p{print} /^\)/{if(p){p=0;print ""}} /^require [^(]/{print} /^replace /{print}' /repo/go.mod
} > $H/go.mod.new.$$
if ! cmp -s $H/go.mod.new.$$ $H/go.mod 2>/dev/null; then mv $H/go.mod.new.$$ $H/go.mod; else rm $H/go.mod.new.$$; fi
if [ ! -f $H/go.sum ] || [ /repo/go.sum -nt $H/go.sum ]; then
  cat /repo/go.sum /verif/tools/extra.sum 2>/dev/null | sort -u > $H/go.sum.$$ && mv $H/go.sum.$$ $H/go.sum
fi
