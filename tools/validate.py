#!/opt/veriftools/pyvenv/bin/python
import json,jsonschema,glob,sys
jsonschema.validate(json.load(open('/verif/MANIFEST.json')),json.load(open('/root/.vp/MANIFEST.schema.json')))
s=json.load(open('/root/.vp/EVIDENCE.schema.json'))
for f in sorted(glob.glob('/verif/evidence/*.json')):
    try:
        jsonschema.validate(json.load(open(f)),s)
    except Exception as e:
        print("INVALID",f,str(e)[:300]); sys.exit(1)
print("manifest and evidence valid")
