#!/bin/bash
# tools/seedstore.sh <id> <seed-dir> <property> "<needs>" "<what was run / result>"
id=$1; sd=$2; prop=$3; needs=$4; ran=$5
d=/verif/seeded/$id; mkdir -p $d
cp $sd/patch.diff $d/; cp $sd/*_test.go $d/ 2>/dev/null; cp $sd/README.md $d/README.md 2>/dev/null
python3 - "$id" "$prop" "$needs" "$ran" > $d/meta.json <<'PY'
import json,sys
print(json.dumps({"id":sys.argv[1],"breaks_property":sys.argv[2],"needs_to_manifest":sys.argv[3],"what_was_run":sys.argv[4]},indent=1))
PY
