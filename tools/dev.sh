#!/bin/bash
# Development helper: build and run ONE property's check from its own main package
# (harness/cmd/dev/<cxx>/main.go importing only that property's package), so that a
# compile error in somebody else's package cannot break your build.
#   tools/dev.sh C07 [quick|thorough] [--mut <repo-relative-file> <patched-file>]... [--race]
# --mut builds with `go build -overlay`, replacing /repo/<file> by <patched-file> WITHOUT touching /repo
# (use it to confirm that the monitor catches a mutation). Evidence/replays of --mut runs go to a scratch root.
export GOFLAGS=-mod=mod GOPROXY=off GOSUMDB=off GOTOOLCHAIN=local
prop=$1; shift; tier=quick
lc=$(echo "$prop" | tr A-Z a-z)
ov=""; race=""; repl=""
while [ $# -gt 0 ]; do
  case "$1" in
    quick|thorough) tier=$1; shift;;
    --race) race=1; shift;;
    --mut) repl="$repl\"/repo/$2\": \"$(readlink -f $3)\","; shift 3;;
    *) echo "bad arg $1"; exit 3;;
  esac
done
cd /verif || exit 3
tools/gen_gomod.sh || exit 3
mkdir -p bin
out=bin/vcheck-$lc
flags="-tags verif"
if [ -n "$repl" ]; then
  ovf=$(mktemp /var/tmp/overlay.XXXXXX.json); echo "{\"Replace\": {${repl%,}}}" > $ovf
  flags="$flags -overlay $ovf"; out=bin/vcheck-$lc-mut
  export VERIF_ROOT=$(mktemp -d /var/tmp/verifroot.XXXXXX); cp /verif/known_findings.jsonl $VERIF_ROOT/ 2>/dev/null
  echo "(mutation run: evidence and replays under $VERIF_ROOT)"
fi
( cd harness && go build $flags -o ../$out ./cmd/dev/$lc ) || { echo BUILD FAILED; exit 3; }
if [ -n "$race" ] || grep -qx "$prop" tools/race_props.txt 2>/dev/null; then
  ( cd harness && go build -race $flags -o ../$out-race ./cmd/dev/$lc ) || { echo BUILD FAILED race; exit 3; }
fi
VERIF_TIER=$tier VERIF_SEED=${VERIF_SEED:-1} $out $prop; rc=$?
[ -n "$ovf" ] && rm -f $ovf
exit $rc
